//go:build verif
// +build verif

package zzverif

import (
	"errors"
	"fmt"
	"strings"

	"github.com/cockroachdb/redact"
)

// showDirective reports what the fmt.State tells it, verbatim.
type showDirective struct{}

func (showDirective) Format(st fmt.State, verb rune) {
	w, wok := st.Width()
	p, pok := st.Precision()
	fmt.Fprintf(st, "[w=%d,%v p=%d,%v +%v -%v #%v sp%v 0%v %c]", w, wok, p, pok,
		st.Flag('+'), st.Flag('-'), st.Flag('#'), st.Flag(' '), st.Flag('0'), verb)
}

// a SafeFormatter with nested Print / Printf
type nestedSF struct{ s string }

func (x nestedSF) SafeFormat(w redact.SafePrinter, verb rune) {
	w.Printf("n%5.2sn", x.s)
	w.Print(x.s, redact.Safe(1))
}

// a SafeFormatter whose nested printing panics (propagating panic
// while printing the panic payload is not reachable here; this one is
// caught)
type panickySF struct{}

func (panickySF) SafeFormat(w redact.SafePrinter, verb rune) {
	w.Printf("%7.3d", 5)
	panic("psf")
}

// a Stringer whose panic value panics again while it is printed: the
// panic propagates out of the (nested) print call, as in fmt
type panicValue struct{}

func (panicValue) String() string { panic("inner") }

type doublePanicker struct{}

func (doublePanicker) String() string { panic(panicValue{}) }

type sfDoublePanic struct{ s string }

func (x sfDoublePanic) SafeFormat(w redact.SafePrinter, verb rune) {
	w.Printf("pre %s %v", x.s, doublePanicker{})
}

type failWriter struct{}

func (failWriter) Write(p []byte) (int, error) { return 0, errors.New("fail") }

// c12History runs dirtying call k (panics are recovered by the harness).
func c12History(k int, s string) {
	defer func() { recover() }()
	switch k {
	case 0:
		_ = redact.Sprintf("%7.3d|%-9.4s|%+v|%#x|% d|%05d", 1, s, 2, 3, 4, 5)
	case 1:
		_ = redact.Sprintf("%[2]*[1]d %[3]v %[9]d", 1, 7, s)
	case 2:
		_ = redact.Sprintf("%!|%z|%d", s, s)
	case 3:
		_ = redact.Sprintf("%v %v", redact.Safe(s), redact.Unsafe(redact.SafeString(s)))
	case 4:
		_ = redact.Sprintf("%8.2v", nestedSF{s})
	case 5:
		_ = redact.Sprintf("%6.1v %v", panStr{s}, panickySF{})
	case 6:
		_, _ = redact.HelperForErrorf("%w: %5.1v", valErr{s}, s)
	case 7:
		_, _ = redact.HelperForErrorf("%w %w", 1, valErr{s})
	case 8:
		_ = redact.Sprintfn(func(w redact.SafePrinter) { w.UnsafeString(s); w.SafeString("x"); w.UnsafeString("\n") })
	case 9:
		_ = redact.Sprintfn(func(w redact.SafePrinter) { w.Print(redact.RedactableString("›")); w.UnsafeString("") })
	case 10:
		_, _ = redact.Fprint(failWriter{}, s, 1)
	case 11:
		_ = redact.Sprint(redact.RedactableString("›"), "")
	case 12:
		_ = redact.Sprintf("%v", redact.Safe(nestedSF{s}))
	case 13:
		_ = redact.Sprintf("%v", redact.Unsafe(nestedSF{s}))
	case 14:
		_ = redact.Sprintf("%v", strings.Repeat("y", 70000))
	case 16:
		_ = redact.Sprintf("lit %v", redact.Safe(sfDoublePanic{s}))
	case 17:
		_ = redact.Sprintf("lit %v", redact.Unsafe(sfDoublePanic{s}))
	case 18:
		_ = redact.Sprintf("%v %+08.3f", s, 2.5)
	case 15:
		var b redact.StringBuilder
		b.Printf("%7.2f %v", 1.5, redact.Safe(s))
		_ = b.RedactableString()
	// nested wrappers: every restorer must run, in order
	case 19:
		_ = redact.Sprintf("%v", redact.Safe(redact.Safe(s)))
	case 20:
		_ = redact.Sprint(redact.Safe(redact.Unsafe(s)))
	case 21:
		_ = redact.Sprintf("%v", redact.Unsafe(redact.Safe(s)))
	case 22:
		_ = redact.Sprint(redact.Unsafe(redact.Unsafe(redact.Unsafe(s))))
	// safe values in interface-typed slots: nothing learnt about a slot
	// type or a dynamic type may carry over to other values
	case 23:
		_ = redact.Sprint([]interface{}{redact.SafeString("a"), redact.SafeInt(1)}, map[string]interface{}{"k": redact.SafeString("v")})
	case 24:
		_ = redact.Sprintf("%v %v", []error{safeErr{"e"}}, pubStruct{"a", 1})
	case 25:
		_ = redact.Sprint(reentSF{s})
	case 26:
		// a plain Formatter that discovers the SafePrinter and prints through it, under Unsafe()
		_ = redact.Sprintf("%v", redact.Unsafe(scrFormatter{[]int{stPrintStr, stPrintfStr, stSafeString}, s}))
	case 27:
		_ = redact.Sprintf("%v", redact.Safe(scrFormatter{[]int{stPrintStr, stPrintfStr}, s}))
	case 28:
		// containers of every sort (scratch objects of the map sorter etc.)
		_ = redact.Sprint(map[string]int{"hunter2": 42, "b": 1}, []string{s}, [2]int{1, 2}, map[int]string{3: s})
	case 29:
		// Fprint onto a writer that looks at what it is given
		w := &hWriter{}
		_, _ = redact.Fprintf(w, "%v|%5d", s, 3)
		_, _ = redact.Fprint(w, s, 4)
	}
}

const nC12Histories = 30

// c12Probe runs probe k and returns everything observable about it.
func c12Probe(k int, s string) (out []byte) {
	defer func() {
		if r := recover(); r != nil {
			out = append(out, []byte("PANIC")...)
		}
	}()
	switch k {
	case 0:
		return []byte(redact.Sprintf("%v|%d|%s", showDirective{}, 3, s))
	case 1:
		return []byte(redact.Sprint(s, 1, 2, showDirective{}))
	case 2:
		return []byte(redact.Sprintfn(func(w redact.SafePrinter) { w.SafeString("k"); w.UnsafeString(s) }))
	case 3:
		t, e := redact.HelperForErrorf("p %v %d", s, 1)
		if e != nil {
			return append([]byte(t), []byte("ERR")...)
		}
		return []byte(t)
	case 4:
		return []byte(redact.Sprintf("%v %+v", pubStruct{s, 1}, redact.Safe(s)))
	case 5:
		return []byte(redact.Sprintf("probe: %w", valErr{s}))
	case 6:
		return []byte(redact.Sprintf("%v", nestedSF{s}))
	case 7:
		t, e := redact.HelperForErrorf("p %w", valErr{s})
		if e == nil {
			return append([]byte(t), []byte("NOERR")...)
		}
		return []byte(t)
	case 8:
		return []byte(redact.Sprintfn(func(w redact.SafePrinter) { w.SafeInt(7); w.SafeString("|"); w.SafeUint(42); w.SafeString("|"); w.SafeFloat(1.5); w.UnsafeString(s) }))
	case 9:
		var b redact.StringBuilder
		b.SafeInt(7)
		b.SafeFloat(0.5)
		b.Print(s, 3)
		return []byte(b.RedactableString())
	// probes 10..12 are not run on the fresh process: their expected result
	// is given by c12Expected, so that whatever the library remembers from
	// the HISTORY's values (per type, per slot type) is seen by the probe first
	case 10:
		return []byte(redact.Sprint([]interface{}{s, 1}))
	case 11:
		return []byte(redact.Sprintf("%v", map[string]interface{}{"k": s}))
	case 12:
		return []byte(redact.Sprintf("%v %v", []error{valErr{s}}, pubStruct{s, 1}))
	case 13:
		// empty and nil containers
		return []byte(redact.Sprint(map[string]int{}, map[string]int(nil), []string{}, []int(nil), struct{}{}))
	case 14:
		// a writer that makes a print call of its own before it looks at its input
		w := &reentWriter{}
		_, _ = redact.Fprintf(w, "f %v|%d", s, 5)
		return w.got
	}
	panic("c12Probe")
}

// reentWriter is a log-sink style writer: it prints something itself
// (through the library) before consuming what it was handed.
type reentWriter struct{ got []byte }

func (w *reentWriter) Write(p []byte) (int, error) {
	_ = redact.Sprintf("sink: %d bytes %s", len(p), "zzzzzzzzzzzzzzzzzzzzzzzzzzzzzzzz")
	w.got = append(w.got, p...)
	return len(p), nil
}

func c12Expected(k int, s string) []byte {
	es := cat(mS, refEscapeBody([]byte(s), true), mE)
	switch k {
	case 10:
		return cat([]byte("["), es, []byte(" ‹1›]"))
	case 11:
		return cat([]byte("map[‹k›:"), es, []byte("]"))
	case 12:
		return cat([]byte("["), es, []byte("] {"), es, []byte(" ‹1›}"))
	case 13:
		return []byte("map[] map[] [] [] {}")
	case 14:
		return cat([]byte("f "), es, []byte("|‹5›"))
	}
	panic("c12Expected")
}

const nC12Probes = 15

// H_c12: a probe call gives the same result after any history as on a
// fresh process; sync.Pool is the adversarial model (Get may return any
// freed printer or a new one).  p = [probe, n, history1, history2...]
func H_c12(p []int) {
	probe, n := p[0], p[1]
	bs := vBytes(n)
	s := string(bs)
	hs := string(vBytes(n))
	vSite(fmt.Sprintf("probe=%d history=%v", probe, p[2:]))
	vPoolAdversarial(false)
	if probe >= 10 {
		for k := range bs {
			vAssume(bs[k] != '\n') // (line feeds split envelopes: C03)
		}
		vAssumeValidUTF8(bs) // (truncated tails get a '?': C10)
	}
	var r0 []byte
	if probe < 10 {
		r0 = c12Probe(probe, s) // first call in the process: fresh printers
	} else {
		r0 = c12Expected(probe, s)
	}
	// a result obtained before the history, re-examined after the probe
	// (before, so that the history's calls are the last ones the recycled
	// printers have seen when the probe runs)
	var early redact.RedactableString
	func() {
		defer func() { recover() }()
		early = redact.Sprintf("pfx %v sfx", redact.Safe(sfDoublePanic{hs}))
	}()
	earlyCopy := append([]byte{}, early...)
	for _, h := range p[2:] {
		c12History(h, hs)
	}
	// the probe may now be served any printer freed so far, or a new one
	vPoolAdversarial(true)
	before := vPoolReuses()
	r1 := c12Probe(probe, s)
	vCover(vPoolReuses() > before, "probe-ran-on-recycled-printer")
	vObserve("fresh", r0)
	vObserve("after", r1)
	vAssert(bytesEq(r0, r1), "C12/history-independent")
	vAssert(bytesEq([]byte(early), earlyCopy), "C12/earlier-result-unchanged")
	vCover(true, "ran")
}

func init() {
	Harnesses["H_c12"] = H_c12
}
