package interp

// gosym environment models: sync.Pool, regexp (see regexp_model.go).

import (
	"go/token"
	"reflect"
	"strings"

	"golang.org/x/tools/go/ssa"
)

var pools map[*value][]value

// PoolReuses counts Get calls served from the free list (C12 cover goal).
var poolReuses, poolNews int

// poolAdversarial: Get may return any freed object or a new one.
var poolAdversarial bool

func resetModels(t *Task) {
	pools = map[*value][]value{}
	poolReuses, poolNews = 0, 0
	poolAdversarial = t != nil && t.PoolMode == 1
	ptrSerial = nil
	mapOrderChoice = -1
	syncMaps = map[*value][]syncMapEntry{}
	released = nil
	releasedCells = nil
	inHarnessPhase = false
	resetRegexpModel()
	resetEnvModels()
}

// ---- ownership discipline of pooled objects (C12, concurrency half) ----
//
// An object handed to (*sync.Pool).Put belongs to the pool: on the real
// machine any other goroutine may Get it at once.  A load or store by the
// releasing call through memory of that object (its fields, nested
// structs/arrays, and the backing arrays of its slices) after the Put is
// therefore a data race with the next owner, even though a sequential
// run shows nothing.  The model records the cells of every released
// object until a Get hands it out again; an access in between is
// reported as "C12/no-use-after-release".

var released map[*value]struct{}
var releasedCells map[*value][]*value

const releasedSliceCap = 1024

func poolRelease(obj value) {
	x, ok := obj.(iface)
	if ok {
		obj = x.v
	}
	p, ok := obj.(*value)
	if !ok || p == nil {
		return
	}
	var cells []*value
	var walk func(a *value)
	walk = func(a *value) {
		cells = append(cells, a)
		switch v := (*a).(type) {
		case structure:
			for i := range v {
				walk(&v[i])
			}
		case array:
			for i := range v {
				walk(&v[i])
			}
		case []value:
			full := v[:cap(v)]
			if len(full) > releasedSliceCap {
				full = full[:releasedSliceCap]
			}
			for i := range full {
				cells = append(cells, &full[i])
			}
		}
	}
	walk(p)
	if released == nil {
		released = map[*value]struct{}{}
		releasedCells = map[*value][]*value{}
	}
	for _, c := range cells {
		released[c] = struct{}{}
	}
	releasedCells[p] = cells
}

func poolAcquire(obj value) {
	if x, ok := obj.(iface); ok {
		obj = x.v
	}
	p, ok := obj.(*value)
	if !ok {
		return
	}
	for _, c := range releasedCells[p] {
		delete(released, c)
	}
	delete(releasedCells, p)
}

// checkReleased reports an access to a cell of a released pool object.
func checkReleased(fr *frame, addr *value, pos token.Pos) {
	if _, ok := released[addr]; !ok {
		return
	}
	if !propEnabled("C12/") || curPC == nil {
		return
	}
	loc := ""
	if pos.IsValid() {
		ps := fr.i.prog.Fset.Position(pos)
		f := ps.Filename
		for i := len(f) - 1; i >= 0; i-- {
			if f[i] == '/' {
				f = f[i+1:]
				break
			}
		}
		loc = f + ":" + itoa(ps.Line)
	}
	curPC.nAsserts++
	curPC.assertProp(curTT.boolc(false), "C12/no-use-after-release fn="+fr.fn.String()+" at="+loc)
}

// ---- writes to library package-level state during printing calls ----
//
// A printing call that stores to a package-level variable of the library
// (or updates a map held by one) races with every other concurrent call
// unless the store is synchronised.  The engine reports such stores made
// in the harness phase outside the documented init-time configuration
// functions (Register*); the native witness is again the race detector's
// report at that location, so a store under a lock is not an alarm.

var inHarnessPhase bool

func libGlobal(g *ssa.Global) bool {
	if g.Pkg == nil {
		return false
	}
	p := g.Pkg.Pkg.Path()
	return strings.HasPrefix(p, "github.com/cockroachdb/redact") && !strings.HasSuffix(p, "/zzverif")
}

func configCall(fr *frame) bool {
	for f := fr; f != nil; f = f.caller {
		n := f.fn.Name()
		if strings.HasPrefix(n, "Register") || strings.HasPrefix(n, "Verif") || n == "init" {
			return true
		}
		if f.fn.Pkg != nil && strings.HasSuffix(f.fn.Pkg.Pkg.Path(), "/zzverif") {
			// the harness itself (its own value tables) is not a printing call
			return f == fr
		}
	}
	return false
}

func rootGlobal(v ssa.Value) *ssa.Global {
	for k := 0; k < 4; k++ {
		switch x := v.(type) {
		case *ssa.Global:
			return x
		case *ssa.FieldAddr:
			v = x.X
		case *ssa.IndexAddr:
			v = x.X
		default:
			return nil
		}
	}
	return nil
}

func checkGlobalStore(fr *frame, addr ssa.Value, pos token.Pos) {
	g := rootGlobal(addr)
	if g == nil || !libGlobal(g) || !propEnabled("C12/") || curPC == nil || configCall(fr) {
		return
	}
	reportSharedWrite(fr, g.Name(), pos)
}

func checkGlobalMapUpdate(fr *frame, m value, pos token.Pos) {
	if !propEnabled("C12/") || curPC == nil {
		return
	}
	mp := reflect.ValueOf(m)
	if mp.Kind() != reflect.Map && mp.Kind() != reflect.Ptr {
		return
	}
	for g, cell := range fr.i.globals {
		if !libGlobal(g) || *cell == nil {
			continue
		}
		gv := reflect.ValueOf(*cell)
		if gv.Kind() == mp.Kind() && gv.Pointer() == mp.Pointer() {
			if configCall(fr) {
				return
			}
			reportSharedWrite(fr, g.Name(), pos)
		}
	}
}

func reportSharedWrite(fr *frame, name string, pos token.Pos) {
	loc := ""
	if pos.IsValid() {
		ps := fr.i.prog.Fset.Position(pos)
		f := ps.Filename
		for i := len(f) - 1; i >= 0; i-- {
			if f[i] == '/' {
				f = f[i+1:]
				break
			}
		}
		loc = f + ":" + itoa(ps.Line)
	}
	curPC.nAsserts++
	curPC.assertProp(curTT.boolc(false), "C12/no-unsynchronised-shared-write var="+name+" fn="+fr.fn.String()+" at="+loc)
}

func itoa(n int) string {
	if n == 0 {
		return "0"
	}
	s := ""
	for ; n > 0; n /= 10 {
		s = string(rune('0'+n%10)) + s
	}
	return s
}

func init() {
	externals["(*sync.Pool).Get"] = func(fr *frame, args []value) value {
		p := args[0].(*value)
		l := pools[p]
		if len(l) > 0 {
			k := len(l) - 1
			if poolAdversarial {
				// adversarial: any freed object, or a new one
				c := curPC.choose(len(l) + 1)
				if c == len(l) {
					return poolNew(fr, p)
				}
				k = c
			}
			v := l[k]
			pools[p] = append(append([]value{}, l[:k]...), l[k+1:]...)
			poolReuses++
			poolAcquire(v)
			return v
		}
		return poolNew(fr, p)
	}
	externals["(*sync.Pool).Put"] = func(fr *frame, args []value) value {
		p := args[0].(*value)
		pools[p] = append(pools[p], args[1])
		poolRelease(args[1])
		return nil
	}
}

func init() {
	externals[hname("vPoolAdversarial")] = func(fr *frame, args []value) value {
		poolAdversarial = args[0].(bool)
		return nil
	}
	externals[hname("vPoolReuses")] = func(fr *frame, args []value) value { return poolReuses }
}

// ---- sync.Map / sync.Mutex / sync.RWMutex / sync.Once: sequential models ----

type syncMapEntry struct{ k, v value }

var syncMaps map[*value][]syncMapEntry

func syncMapKeyEq(a, b value) bool {
	if isSym(a) || isSym(b) {
		unsup("symbolic key in sync.Map")
	}
	defer func() {
		if r := recover(); r != nil {
			if _, ok := r.(unsupported); ok {
				panic(r)
			}
			unsup("sync.Map key comparison: %v", r)
		}
	}()
	return toString(a) == toString(b) && equalsDeep(a, b)
}

func equalsDeep(a, b value) bool {
	switch x := a.(type) {
	case iface:
		y, ok := b.(iface)
		return ok && sameType(x.t, y.t) && (x.t == nil || equals(x.t, x.v, y.v))
	}
	return toString(a) == toString(b)
}

func init() {
	get := func(args []value) *value { return args[0].(*value) }
	externals["(*sync.Map).Load"] = func(fr *frame, args []value) value {
		for _, e := range syncMaps[get(args)] {
			if syncMapKeyEq(e.k, args[1]) {
				return tuple{e.v, true}
			}
		}
		return tuple{iface{}, false}
	}
	externals["(*sync.Map).Store"] = func(fr *frame, args []value) value {
		p := get(args)
		for i, e := range syncMaps[p] {
			if syncMapKeyEq(e.k, args[1]) {
				syncMaps[p][i].v = args[2]
				return nil
			}
		}
		syncMaps[p] = append(syncMaps[p], syncMapEntry{args[1], args[2]})
		return nil
	}
	externals["(*sync.Map).LoadOrStore"] = func(fr *frame, args []value) value {
		p := get(args)
		for _, e := range syncMaps[p] {
			if syncMapKeyEq(e.k, args[1]) {
				return tuple{e.v, true}
			}
		}
		syncMaps[p] = append(syncMaps[p], syncMapEntry{args[1], args[2]})
		return tuple{args[2], false}
	}
	externals["(*sync.Map).Delete"] = func(fr *frame, args []value) value {
		p := get(args)
		for i, e := range syncMaps[p] {
			if syncMapKeyEq(e.k, args[1]) {
				syncMaps[p] = append(append([]syncMapEntry{}, syncMaps[p][:i]...), syncMaps[p][i+1:]...)
				return nil
			}
		}
		return nil
	}
	nop := func(fr *frame, args []value) value { return nil }
	for _, n := range []string{"(*sync.Mutex).Lock", "(*sync.Mutex).Unlock", "(*sync.RWMutex).Lock", "(*sync.RWMutex).Unlock", "(*sync.RWMutex).RLock", "(*sync.RWMutex).RUnlock"} {
		externals[n] = nop
	}
	externals["(*sync.Mutex).TryLock"] = func(fr *frame, args []value) value { return true }
}

func poolNew(fr *frame, p *value) value {
	poolNews++
	st := (*p).(structure)
	newFn := st[len(st)-1]
	if newFn == nil {
		return iface{}
	}
	return call(fr.i, fr, token.NoPos, newFn, nil)
}
