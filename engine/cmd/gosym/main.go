// Command gosym: symbolic execution of cockroachdb/redact's go/ssa with
// an SMT back end.  See /verif/DESIGN.md.
package main

import (
	"bufio"
	"encoding/json"
	"fmt"
	"os"
	"runtime"
	"runtime/pprof"
	"strconv"

	"gosym/interp"
)

var (
	repoDir    = envOr("GOSYM_REPO", "/repo")
	harnessDir = envOr("GOSYM_HARNESS", "/verif/harness")
	verifDir   = envOr("GOSYM_VERIF", "/verif")
)

func envOr(k, d string) string {
	if v := os.Getenv(k); v != "" {
		return v
	}
	return d
}

func main() {
	if len(os.Args) < 2 {
		usage()
	}
	switch os.Args[1] {
	case "worker":
		workerMain()
	case "run":
		runMain(os.Args[2:])
	case "check":
		os.Exit(checkMain(os.Args[2:]))
	case "replay":
		os.Exit(replayMain(os.Args[2:]))
	case "selftest":
		os.Exit(selftestMain(os.Args[2:]))
	case "audit":
		os.Exit(auditMain(os.Args[2:]))
	default:
		usage()
	}
}

func usage() {
	fmt.Fprintln(os.Stderr, "usage: gosym check <id> [--tier quick|thorough] | replay <file> | selftest | run <harness> <args...> | worker")
	os.Exit(2)
}

func loadProgram() (*interp.Program, error) {
	ov, err := interp.OverlayFor(repoDir, harnessDir)
	if err != nil {
		return nil, err
	}
	return interp.Load(repoDir, ov)
}

// workerMain: JSON lines of Task on stdin, TaskResult on stdout.
func workerMain() {
	out := bufio.NewWriter(os.Stdout)
	p, err := loadProgram()
	if err != nil {
		b, _ := json.Marshal(map[string]string{"fatal": err.Error()})
		out.Write(b)
		out.WriteByte('\n')
		out.Flush()
		os.Exit(2)
	}
	b, _ := json.Marshal(map[string]interface{}{"ready": true, "load_s": p.LoadS})
	out.Write(b)
	out.WriteByte('\n')
	out.Flush()
	if os.Getenv("GOSYM_FORCE_RE") != "" {
		interp.ForceRegexpModel = true
	}
	w := interp.NewWorker(p)
	defer w.Close()
	sc := bufio.NewScanner(os.Stdin)
	sc.Buffer(make([]byte, 1<<20), 1<<28)
	for sc.Scan() {
		var t interp.Task
		if err := json.Unmarshal(sc.Bytes(), &t); err != nil {
			continue
		}
		res := runTaskSafe(w, &t)
		b, _ := json.Marshal(res)
		out.Write(b)
		out.WriteByte('\n')
		out.Flush()
	}
}

func runTaskSafe(w *interp.Worker, t *interp.Task) (res *interp.TaskResult) {
	defer func() {
		if r := recover(); r != nil {
			res = &interp.TaskResult{ID: t.ID, Oblig: t.Oblig, Err: fmt.Sprintf("worker crash: %v", r)}
		}
	}()
	return w.Run(t)
}

// runMain: debug one obligation in-process.
func runMain(args []string) {
	if len(args) < 1 {
		usage()
	}
	p, err := loadProgram()
	if err != nil {
		fmt.Fprintln(os.Stderr, err)
		os.Exit(2)
	}
	runtime.GC()
	var ms runtime.MemStats
	runtime.ReadMemStats(&ms)
	fmt.Fprintf(os.Stderr, "loaded in %.1fs, live heap %d MB\n", p.LoadS, ms.HeapAlloc>>20)
	if os.Getenv("GOSYM_FORCE_RE") != "" {
		interp.ForceRegexpModel = true
	}
	t := &interp.Task{Harness: args[0], NSamples: 2}
	for _, a := range args[1:] {
		if a == "-panicviol" {
			t.PanicViol = true
			continue
		}
		if a == "-advpool" {
			t.PoolMode = 1
			continue
		}
		n, err := strconv.Atoi(a)
		if err != nil {
			usage()
		}
		t.Args = append(t.Args, n)
	}
	w := interp.NewWorker(p)
	defer w.Close()
	if pf := os.Getenv("GOSYM_PROF"); pf != "" {
		f, _ := os.Create(pf)
		pprof.StartCPUProfile(f)
		defer pprof.StopCPUProfile()
	}
	res := w.Run(t)
	funcs := res.Funcs
	res.Funcs = nil
	b, _ := json.MarshalIndent(res, "", " ")
	fmt.Println(string(b))
	fmt.Printf("funcs executed: %d\n", len(funcs))
	fmt.Printf("paths=%d completed=%d stopped=%d panics=%d unsup=%d viol=%d queries=%d solver=%.0fms wall=%.0fms\n",
		res.Paths, res.Completed, res.Stopped, res.Panics, res.Unsupported, len(res.Violations), res.Queries, res.SolverMs, res.WallMs)
}
