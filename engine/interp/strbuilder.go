package interp

// gosym: model of strings.Builder (its source uses unsafe to defeat
// escape analysis and to alias the buffer as a string).  The model keeps
// the bytes in the struct's buf field; symbolic bytes are preserved.

import "go/token"

func sbFields(v value) (st structure) {
	p := v.(*value)
	return (*p).(structure)
}

func sbBufIndex(st structure) int { return len(st) - 1 }

func init() {
	app := func(args []value, cells []value) {
		st := sbFields(args[0])
		k := sbBufIndex(st)
		buf, _ := st[k].([]value)
		st[k] = append(buf, cells...)
	}
	externals["(*strings.Builder).WriteByte"] = func(fr *frame, args []value) value {
		app(args, []value{args[1]})
		return iface{}
	}
	externals["(*strings.Builder).WriteString"] = func(fr *frame, args []value) value {
		c := cells(args[1])
		app(args, c)
		return tuple{len(c), iface{}}
	}
	externals["(*strings.Builder).Write"] = func(fr *frame, args []value) value {
		c := cells(args[1])
		app(args, c)
		return tuple{len(c), iface{}}
	}
	externals["(*strings.Builder).WriteRune"] = func(fr *frame, args []value) value {
		fn := curInterp.prog.ImportedPackage("unicode/utf8").Func("AppendRune")
		out := call(curInterp, nil, token.NoPos, fn, []value{[]value(nil), args[1]}).([]value)
		app(args, out)
		return tuple{len(out), iface{}}
	}
	externals["(*strings.Builder).String"] = func(fr *frame, args []value) value {
		st := sbFields(args[0])
		buf, _ := st[sbBufIndex(st)].([]value)
		return normStr(symstr(append([]value{}, buf...)))
	}
	externals["(*strings.Builder).Len"] = func(fr *frame, args []value) value {
		st := sbFields(args[0])
		buf, _ := st[sbBufIndex(st)].([]value)
		return len(buf)
	}
	externals["(*strings.Builder).Cap"] = func(fr *frame, args []value) value {
		st := sbFields(args[0])
		buf, _ := st[sbBufIndex(st)].([]value)
		return cap(buf)
	}
	externals["(*strings.Builder).Reset"] = func(fr *frame, args []value) value {
		st := sbFields(args[0])
		st[sbBufIndex(st)] = []value(nil)
		return nil
	}
	externals["(*strings.Builder).Grow"] = func(fr *frame, args []value) value { return nil }
}
