#!/usr/bin/env python3
# mk_results.py <round-dir> <final-matrix-log> [<first-run-log>] : write <round-dir>/RESULTS.md
import sys, re, subprocess, os
rd, final = sys.argv[1], sys.argv[2]
first = sys.argv[3] if len(sys.argv) > 3 else None
def parse(f):
    out = {}
    for l in open(f):
        p = l.split(None, 3)
        if len(p) >= 3:
            out[p[0]] = (p[2], p[3].strip() if len(p) > 3 else '')
    return out
fin = parse(final); fst = parse(first) if first else {}
head = subprocess.check_output(['git', '-C', '/repo', 'log', '--format=%h', '-1']).decode().strip()
n = sum(1 for v in fin.values() if v[0] == 'CAUGHT')
w = open(os.path.join(rd, 'RESULTS.md'), 'w')
w.write('# %s: each change against the check of its own property (final machinery, /repo %s)\n\n' % (os.path.basename(rd.rstrip('/')), head))
if fst:
    w.write('First run (machinery as it was when the round was written): %d/%d caught; final: %d/%d.\n\n' % (sum(1 for v in fst.values() if v[0] == 'CAUGHT'), len(fst), n, len(fin)))
    w.write('| change | check | first run | final | final check summary |\n|---|---|---|---|---|\n')
else:
    w.write('Final: %d/%d caught.\n\n| change | check | result | check summary |\n|---|---|---|---|\n' % (n, len(fin)))
for k in sorted(fin):
    res, summ = fin[k]
    summ = re.sub(r'^check C\d\d tier=quick: ', '', summ)[:170]
    if fst:
        w.write('| %s | %s | %s | %s | %s |\n' % (k, k.split('-')[0], fst.get(k, ('?',))[0], res, summ))
    else:
        w.write('| %s | %s | %s | %s |\n' % (k, k.split('-')[0], res, summ))
w.close()
print(rd, n, len(fin))
