package main

import (
	"fmt"
	"os"
)

// selftestMain validates the engine against the native build (DESIGN
// §3.3): the conformance set (63 value kinds x 50 directives through
// redact and the standard fmt) and the regexp model against the host
// regexp engine on every string of <= 4 symbols over an 8-symbol
// alphabet.  Every path is replayed natively and all observed outputs
// must agree.
func selftestMain(args []string) int {
	dir, err := os.MkdirTemp("", "gosym-selftest-")
	if err != nil {
		fmt.Fprintln(os.Stderr, err)
		return 2
	}
	defer os.RemoveAll(dir)
	verifDir = dir
	rc := 0
	for _, id := range []string{"CONF", "ENVCONF", "RECONF"} {
		if id == "RECONF" {
			os.Setenv("GOSYM_FORCE_RE", "1")
		}
		r := checkMain([]string{id})
		if r != 0 || lastRun.mismatched != 0 || lastRun.inconclusive != 0 || lastRun.validated != lastRun.paths {
			fmt.Printf("SELFTEST %s FAILED: rc=%d validated=%d/%d mismatched=%d inconclusive=%d\n", id, r, lastRun.validated, lastRun.paths, lastRun.mismatched, lastRun.inconclusive)
			rc = 2
		} else {
			fmt.Printf("selftest %s ok: %d engine paths agree with the native build\n", id, lastRun.validated)
		}
	}
	os.Unsetenv("GOSYM_FORCE_RE")
	return rc
}
