//go:build verif
// +build verif

// Command nativemain replays vectors against the natively compiled
// library: reads JSON lines {"harness","args","vector"} from the file
// named by argv[1] and prints one JSON line per input.
package main

import (
	"bufio"
	"encoding/json"
	"fmt"
	"os"

	"github.com/cockroachdb/redact/zzverif"
)

type in struct {
	Harness string   `json:"harness"`
	Args    []int    `json:"args"`
	Vector  []uint64 `json:"vector"`
	Props   []string `json:"props"`
}
type out struct {
	Outcome string            `json:"outcome"`
	Obs     map[string]string `json:"obs"`
}

func main() {
	race := false
	if len(os.Args) > 2 && os.Args[1] == "-race" {
		race = true
		os.Args = os.Args[1:]
	}
	f, err := os.Open(os.Args[1])
	if err != nil {
		fmt.Println(err)
		os.Exit(2)
	}
	sc := bufio.NewScanner(f)
	sc.Buffer(make([]byte, 1<<20), 1<<26)
	w := bufio.NewWriter(os.Stdout)
	defer w.Flush()
	for sc.Scan() {
		var x in
		if err := json.Unmarshal(sc.Bytes(), &x); err != nil {
			fmt.Fprintln(w, `{"outcome":"badinput"}`)
			continue
		}
		if race {
			o := zzverif.RaceNative(x.Harness, x.Args, x.Vector, x.Props, 8, 200)
			b, _ := json.Marshal(out{o, nil})
			w.Write(b)
			w.WriteByte('\n')
			continue
		}
		o, obs := zzverif.RunNative(x.Harness, x.Args, x.Vector, x.Props)
		b, _ := json.Marshal(out{o, obs})
		w.Write(b)
		w.WriteByte('\n')
	}
}
