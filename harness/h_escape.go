//go:build verif
// +build verif

package zzverif

import (
	"github.com/cockroachdb/redact"
	"github.com/cockroachdb/redact/internal/buffer"
)

// Buffer modes as the public API sees them (untyped constants).
const (
	modeUnsafe  = 0
	modeSafeEsc = 1
	modeRaw     = 2
)

// vFragment returns a symbolic well-formed, line-safe fragment of the
// given shape, as documented raw-mode input.  Shapes:
//  0: empty
//  1: one ASCII byte
//  2: S a E            (closed envelope with 1 ASCII non-LF byte)
//  3: a S b E          (safe byte, envelope)
//  4: S a E b          (envelope, safe byte)
//  5: a LF             (safe run ending in LF)
//  6: S E              (empty envelope)
//  7: two safe ASCII bytes
//  8: S a E LF
func vFragment(shape int) []byte {
	asc := func(nl bool) byte {
		c := vByte()
		vAssume(c < 0x80)
		if !nl {
			vAssume(c != '\n')
		}
		return c
	}
	switch shape {
	case 0:
		return nil
	case 1:
		return []byte{asc(true)}
	case 2:
		return cat(mS, []byte{asc(false)}, mE)
	case 3:
		return cat([]byte{asc(true)}, mS, []byte{asc(false)}, mE)
	case 4:
		return cat(mS, []byte{asc(false)}, mE, []byte{asc(true)})
	case 5:
		return []byte{asc(true), '\n'}
	case 6:
		return cat(mS, mE)
	case 7:
		return []byte{asc(true), asc(true)}
	case 8:
		return cat(mS, []byte{asc(false)}, mE, []byte{'\n'})
	}
	panic("bad fragment shape")
}

const nFragShapes = 9

// refEscape is the byte-level specification of what the buffer must
// hold after: raw write of wf fragment P, then Q written in unsafe mode
// (brk) or safe-escaped mode (!brk), then finalisation.  tailQ reports
// whether a '?' was appended for an invalid tail (accepted either way
// by the caller under the rules of DESIGN §4).
func refEscapeBody(Q []byte, brk bool) []byte {
	// escaped payload with LF runs wrapped as E LF+ S when brk
	out := make([]byte, 0, len(Q)+8)
	for i := 0; i < len(Q); {
		if isM(Q, i) {
			out = append(out, '?')
			i += 3
		} else if brk && Q[i] == '\n' {
			out = append(out, mE...)
			for i < len(Q) && Q[i] == '\n' {
				out = append(out, '\n')
				i++
			}
			out = append(out, mS...)
		} else {
			out = append(out, Q[i])
			i++
		}
	}
	return out
}

// normEnv removes empty envelopes "S E" and merges "E S"; used to
// compare modulo the elisions the buffer performs.
func normEnv(b []byte) []byte { return mergeAdj(b) }

// H_escape: C10/C01/C03 on the escape scanner through the public
// ManualBuffer.  p = [fragment shape, n payload bytes, mode(0 unsafe,1 safe-escaped), split]
// split = -1: one Write; otherwise Write(Q[:split]); Write(Q[split:]).
func H_escape(p []int) {
	shape, n, mode, split := p[0], p[1], p[2], p[3]
	P := vFragment(shape)
	Q := vBytes(n)
	Q0 := append([]byte{}, Q...)
	var b redact.ManualBuffer
	b.SetMode(modeRaw)
	b.Write(P)
	b.SetMode(redactMode(mode))
	if split < 0 {
		b.Write(Q)
	} else {
		b.Write(Q[:split])
		b.WriteString(string(Q[split:]))
	}
	out := []byte(b.RedactableBytes())
	vObserve("out", out)
	wf, ls := wfls(out)
	vAssert(wf, "C01/wf")
	vAssert(ls, "C03/lineSafe")
	vAssert(bytesEq(Q, Q0), "C10/payload-unmodified")
	// reference
	brk := mode == modeUnsafe
	var want []byte
	if brk {
		want = cat(P, mS, refEscapeBody(Q, true), mE)
	} else {
		want = cat(P, refEscapeBody(Q, false))
	}
	got := out
	// tail '?': present iff got is one longer than the reference
	// modulo elisions; check prefix equality on normalised forms.
	ng, nw := normEnv(got), normEnv(want)
	sg, sw := strip(got), strip(want)
	vAssert(hasPrefix(sg, sw), "C10/strip-prefix")
	extra := len(sg) - len(sw)
	vAssert(extra == 0 || (extra == 1 && sg[len(sg)-1] == '?'), "C10/strip-tail")
	if extra == 0 {
		vAssert(bytesEq(ng, nw), "C10/escape-ref")
	}
	if n > 0 && validUTF8(Q) {
		vAssert(extra == 0, "C10/no-tail-on-valid")
	}
	// envelopes deleted: P's safe text, then (safe mode) escaped Q or (unsafe) LFs of Q
	dg := delEnv(got)
	if brk {
		vAssert(bytesEq(dg, cat(delEnv(P), nlOf(Q))), "C09/delenv-unsafe")
	} else if extra == 0 {
		vAssert(bytesEq(dg, cat(delEnv(P), esc(Q))), "C09/delenv-safe")
	}
	vCover(hasMarker(Q), "marker-in-payload")
	vCover(n > 0 && Q[0] == '\n', "lf-first")
	vCover(n > 0 && Q[n-1] == '\n', "lf-last")
	vCover(extra == 1, "tail-added")
}

func redactMode(m int) buffer.OutputMode { return buffer.OutputMode(m) }

func init() {
	Harnesses["H_escape"] = H_escape
}
