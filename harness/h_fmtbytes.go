//go:build verif
// +build verif

package zzverif

import (
	"github.com/cockroachdb/redact"
)

var fmtAlphabet = []byte{'%', '+', '-', '#', '0', '1', '5', '.', '*', '[', ']', 'v', 's', 'd', 'x', 'q', 'c', 'U', 'T', 'w', ' ', '\n', 'a', 0xE2, 0x80, 0xB9, 0xBA}

func inAlphabet(c byte) bool {
	r := false
	for _, a := range fmtAlphabet {
		r = vOr(r, c == a)
	}
	return r
}

// H_fmtbytes: the format string itself is symbolic: m bytes over the
// 27-symbol alphabet (every byte of doPrintf's directive syntax, both
// markers' bytes, LF, a literal).  p = [m, variant]
// variant 0: Sprintf(f, Σ string, 7, Safe(Σ string)); 1: Sprintf(f) (no
// operands); 2: Sprintf(f, stringer, error, nil)
func H_fmtbytes(p []int) {
	m, variant := p[0], p[1]
	f := vBytes(m)
	for k := range f {
		vAssume(inAlphabet(f[k]))
	}
	s := vBytes(2)
	var r catchRes
	switch variant {
	case 0:
		r = catchRedact(func() redact.RedactableString {
			return redact.Sprintf(string(f), string(s), 7, redact.Safe(string(s)))
		})
	case 1:
		r = catchRedact(func() redact.RedactableString { return redact.Sprintf(string(f)) })
	case 2:
		r = catchRedact(func() redact.RedactableString {
			return redact.Sprintf(string(f), strer{string(s)}, valErr{string(s)}, nil)
		})
	// the symbolic bytes followed by a whole marker (a marker as the verb of
	// whatever directive the bytes start), without and with operands
	case 3:
		r = catchRedact(func() redact.RedactableString { return redact.Sprintf(string(f) + "‹") })
	case 4:
		r = catchRedact(func() redact.RedactableString { return redact.Sprintf(string(f) + "›") })
	case 5:
		r = catchRedact(func() redact.RedactableString {
			return redact.Sprintf(string(f)+"‹|%v", string(s), 7)
		})
	case 6:
		r = catchRedact(func() redact.RedactableString {
			return redact.Sprintf(string(f)+"›", redact.Safe(string(s)))
		})
	}
	vAssert(!r.panicked, "C11/no-panic")
	if r.panicked {
		return
	}
	out := []byte(r.out)
	vObserve("out", out)
	wf, ls := wfls(out)
	vAssert(wf, "C01/wf")
	vAssert(ls, "C03/lineSafe")
	if vProp("C03") {
		vAssert(linesWF(out), "C03/each-line-wf")
	}
	vCover(len(out) > 0 && hasMarker(out), "envelope-produced")
}

func init() {
	Harnesses["H_fmtbytes"] = H_fmtbytes
}
