#!/bin/bash
# type-check the harness package natively through the overlay
D=$(mktemp -d); trap 'rm -rf $D' EXIT
python3 - "$D" <<'PY'
import os,sys,json,glob
D=sys.argv[1]; H='/verif/harness'; R='/repo'
ov={}
for f in glob.glob(H+'/*.go'): ov[R+'/zzverif/'+os.path.basename(f)]=f
for f in glob.glob(H+'/nativemain/*.go'): ov[R+'/zzverif/nativemain/'+os.path.basename(f)]=f
for d in glob.glob(H+'/acc/*'):
    pk=os.path.basename(d).replace('__','/')
    for f in glob.glob(d+'/*.go'): ov[R+'/'+pk+'/zz_verif_'+os.path.basename(f)]=f
json.dump({"Replace":ov},open(D+'/ov.json','w'))
PY
cd /repo && GOFLAGS=-mod=mod GOPROXY=off go build -tags verif -overlay $D/ov.json -o $D/native ./zzverif/nativemain && echo "harness OK"
