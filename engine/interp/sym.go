package interp

// Spike: symbolic values, term DAG, SMT-LIB printing.

import (
	"fmt"
	"go/token"
	"go/types"
	"os"
	"runtime/debug"
	"strings"
)

type term struct {
	op   string
	args []*term
	w    int // width in bits; 0 = Bool
	val  uint64
	name string
	a, b int
	id   int

	supp     []int
	suppDone bool
	size     int // number of distinct nodes, capped (0 = not computed)
}

type termTable struct {
	byKey map[string]*term
	all   []*term
}

func newTermTable() *termTable { return &termTable{byKey: map[string]*term{}} }

func (tt *termTable) mk(t term) *term {
	var sb strings.Builder
	fmt.Fprintf(&sb, "%s|%d|%d|%s|%d|%d", t.op, t.w, t.val, t.name, t.a, t.b)
	for _, a := range t.args {
		fmt.Fprintf(&sb, "|%d", a.id)
	}
	k := sb.String()
	if r, ok := tt.byKey[k]; ok {
		return r
	}
	nt := t
	nt.id = len(tt.all)
	tt.all = append(tt.all, &nt)
	tt.byKey[k] = &nt
	return &nt
}

func mask(w int) uint64 {
	if w >= 64 {
		return ^uint64(0)
	}
	return (uint64(1) << uint(w)) - 1
}

func (tt *termTable) konst(w int, v uint64) *term {
	return tt.mk(term{op: "const", w: w, val: v & mask(w)})
}
func (tt *termTable) boolc(b bool) *term {
	v := uint64(0)
	if b {
		v = 1
	}
	return tt.mk(term{op: "const", w: 0, val: v})
}
func (tt *termTable) variable(name string, w int) *term {
	return tt.mk(term{op: "var", w: w, name: name})
}
func (t *term) isConst() bool { return t.op == "const" }

func sext64(v uint64, w int) int64 {
	if w >= 64 {
		return int64(v)
	}
	if v&(1<<uint(w-1)) != 0 {
		return int64(v | ^mask(w))
	}
	return int64(v)
}

func (tt *termTable) bin(op string, x, y *term) *term {
	w := x.w
	if x.isConst() && y.isConst() {
		a, b := x.val, y.val
		switch op {
		case "bvadd":
			return tt.konst(w, a+b)
		case "bvsub":
			return tt.konst(w, a-b)
		case "bvmul":
			return tt.konst(w, a*b)
		case "bvand":
			return tt.konst(w, a&b)
		case "bvor":
			return tt.konst(w, a|b)
		case "bvxor":
			return tt.konst(w, a^b)
		case "bvshl":
			if b >= uint64(w) {
				return tt.konst(w, 0)
			}
			return tt.konst(w, a<<b)
		case "bvlshr":
			if b >= uint64(w) {
				return tt.konst(w, 0)
			}
			return tt.konst(w, a>>b)
		}
	}
	// light simplifications
	switch op {
	case "bvand":
		if y.isConst() && y.val == mask(w) {
			return x
		}
		if y.isConst() && y.val == 0 {
			return y
		}
	case "bvor", "bvxor", "bvadd", "bvsub", "bvshl", "bvlshr", "bvashr":
		if y.isConst() && y.val == 0 {
			return x
		}
	}
	return tt.mk(term{op: op, w: w, args: []*term{x, y}})
}

func (tt *termTable) cmp(op string, x, y *term) *term {
	if x.isConst() && y.isConst() {
		a, b := x.val, y.val
		sa, sb := sext64(a, x.w), sext64(b, x.w)
		var r bool
		switch op {
		case "=":
			r = a == b
		case "bvult":
			r = a < b
		case "bvule":
			r = a <= b
		case "bvslt":
			r = sa < sb
		case "bvsle":
			r = sa <= sb
		}
		return tt.boolc(r)
	}
	if op == "=" && x == y {
		return tt.boolc(true)
	}
	return tt.mk(term{op: op, w: 0, args: []*term{x, y}})
}

func (tt *termTable) not(x *term) *term {
	if x.isConst() {
		return tt.boolc(x.val == 0)
	}
	if x.op == "not" {
		return x.args[0]
	}
	return tt.mk(term{op: "not", w: 0, args: []*term{x}})
}

func (tt *termTable) and(x, y *term) *term {
	if x.isConst() {
		if x.val == 0 {
			return x
		}
		return y
	}
	if y.isConst() {
		if y.val == 0 {
			return y
		}
		return x
	}
	return tt.mk(term{op: "and", w: 0, args: []*term{x, y}})
}

func (tt *termTable) ite(c, x, y *term) *term {
	if c.isConst() {
		if c.val != 0 {
			return x
		}
		return y
	}
	if x == y {
		return x
	}
	return tt.mk(term{op: "ite", w: x.w, args: []*term{c, x, y}})
}

func (tt *termTable) extract(x *term, hi, lo int) *term {
	if x.isConst() {
		return tt.konst(hi-lo+1, x.val>>uint(lo))
	}
	if lo == 0 && hi == x.w-1 {
		return x
	}
	return tt.mk(term{op: "extract", w: hi - lo + 1, a: hi, b: lo, args: []*term{x}})
}

func (tt *termTable) ext(x *term, to int, signed bool) *term {
	if to == x.w {
		return x
	}
	if to < x.w {
		return tt.extract(x, to-1, 0)
	}
	if x.isConst() {
		if signed {
			return tt.konst(to, uint64(sext64(x.val, x.w)))
		}
		return tt.konst(to, x.val)
	}
	op := "zext"
	if signed {
		op = "sext"
	}
	return tt.mk(term{op: op, w: to, a: to - x.w, args: []*term{x}})
}

// smt returns the SMT-LIB2 text of t, referring to sub-terms by name
// (non-leaf nodes are introduced with define-fun by the solver session).
func (t *term) leafSMT() string {
	switch t.op {
	case "const":
		if t.w == 0 {
			if t.val != 0 {
				return "true"
			}
			return "false"
		}
		return fmt.Sprintf("(_ bv%d %d)", t.val, t.w)
	case "var":
		return t.name
	}
	return ""
}

func sortOf(w int) string {
	if w == 0 {
		return "Bool"
	}
	return fmt.Sprintf("(_ BitVec %d)", w)
}

// ---- symbolic interpreter values ----

type symv struct {
	t    *term
	kind types.BasicKind // types.Bool or an integer kind
}

type symstr []value // elements: byte or symv(uint8)

// pointer to slice/array element selected by a symbolic index
type symElemPtr struct {
	cells []value
	idx   *term // 64-bit
}

func kindWidth(k types.BasicKind) int {
	switch k {
	case types.Bool:
		return 0
	case types.Int8, types.Uint8:
		return 8
	case types.Int16, types.Uint16:
		return 16
	case types.Int32, types.Uint32:
		return 32
	default:
		return 64
	}
}

func kindSigned(k types.BasicKind) bool {
	switch k {
	case types.Int, types.Int8, types.Int16, types.Int32, types.Int64:
		return true
	}
	return false
}

func concreteKind(x value) (types.BasicKind, uint64, bool) {
	switch x := x.(type) {
	case bool:
		if x {
			return types.Bool, 1, true
		}
		return types.Bool, 0, true
	case int:
		return types.Int, uint64(x), true
	case int8:
		return types.Int8, uint64(x), true
	case int16:
		return types.Int16, uint64(x), true
	case int32:
		return types.Int32, uint64(x), true
	case int64:
		return types.Int64, uint64(x), true
	case uint:
		return types.Uint, uint64(x), true
	case uint8:
		return types.Uint8, uint64(x), true
	case uint16:
		return types.Uint16, uint64(x), true
	case uint32:
		return types.Uint32, uint64(x), true
	case uint64:
		return types.Uint64, x, true
	case uintptr:
		return types.Uintptr, uint64(x), true
	}
	return 0, 0, false
}

func fromConst(k types.BasicKind, v uint64) value {
	switch k {
	case types.Bool:
		return v != 0
	case types.Int:
		return int(v)
	case types.Int8:
		return int8(v)
	case types.Int16:
		return int16(v)
	case types.Int32:
		return int32(v)
	case types.Int64:
		return int64(v)
	case types.Uint:
		return uint(v)
	case types.Uint8:
		return uint8(v)
	case types.Uint16:
		return uint16(v)
	case types.Uint32:
		return uint32(v)
	case types.Uint64:
		return v
	case types.Uintptr:
		return uintptr(v)
	}
	panic(fmt.Sprintf("fromConst: kind %v", k))
}

func (tt *termTable) wrap(t *term, k types.BasicKind) value {
	if t.isConst() {
		return fromConst(k, t.val)
	}
	return symv{t, k}
}

// lift turns a concrete or symbolic scalar into a term.
func (tt *termTable) lift(x value) (*term, types.BasicKind) {
	if s, ok := x.(symv); ok {
		return s.t, s.kind
	}
	k, v, ok := concreteKind(x)
	if !ok {
		if os.Getenv("SPIKE_STACK") != "" {
			debug.PrintStack()
		}
		panic(fmt.Sprintf("sym: cannot lift %T", x))
	}
	if k == types.Bool {
		return tt.boolc(v != 0), k
	}
	return tt.konst(kindWidth(k), v), k
}

func isSym(x value) bool {
	switch x.(type) {
	case symv, symstr:
		return true
	}
	return false
}

func (tt *termTable) symBinop(op token.Token, x, y value) value {
	// strings
	_, xs := x.(symstr)
	_, ys := y.(symstr)
	if xs || ys {
		return tt.symStrBinop(op, toSymstr(x), toSymstr(y))
	}
	if op == token.SHL || op == token.SHR {
		xt, k := tt.lift(x)
		yt, _ := tt.lift(y)
		if !yt.isConst() {
			panic("sym: symbolic shift count unsupported in spike")
		}
		w := kindWidth(k)
		n := yt.val
		if op == token.SHL {
			if n >= uint64(w) {
				return fromConst(k, 0)
			}
			return tt.wrap(tt.bin("bvshl", xt, tt.konst(w, n)), k)
		}
		if kindSigned(k) {
			if n >= uint64(w) {
				n = uint64(w - 1)
			}
			return tt.wrap(tt.mk(term{op: "bvashr", w: w, args: []*term{xt, tt.konst(w, n)}}), k)
		}
		if n >= uint64(w) {
			return fromConst(k, 0)
		}
		return tt.wrap(tt.bin("bvlshr", xt, tt.konst(w, n)), k)
	}
	xt, k := tt.lift(x)
	yt, _ := tt.lift(y)
	sg := kindSigned(k)
	if k == types.Bool {
		switch op {
		case token.EQL:
			return tt.wrap(tt.cmp("=", xt, yt), types.Bool)
		case token.NEQ:
			return tt.wrap(tt.not(tt.cmp("=", xt, yt)), types.Bool)
		}
		panic("sym: bool op " + op.String())
	}
	switch op {
	case token.ADD:
		return tt.wrap(tt.bin("bvadd", xt, yt), k)
	case token.SUB:
		return tt.wrap(tt.bin("bvsub", xt, yt), k)
	case token.MUL:
		return tt.wrap(tt.bin("bvmul", xt, yt), k)
	case token.QUO:
		if sg {
			return tt.wrap(tt.mk(term{op: "bvsdiv", w: xt.w, args: []*term{xt, yt}}), k)
		}
		return tt.wrap(tt.mk(term{op: "bvudiv", w: xt.w, args: []*term{xt, yt}}), k)
	case token.REM:
		if sg {
			return tt.wrap(tt.mk(term{op: "bvsrem", w: xt.w, args: []*term{xt, yt}}), k)
		}
		return tt.wrap(tt.mk(term{op: "bvurem", w: xt.w, args: []*term{xt, yt}}), k)
	case token.AND:
		return tt.wrap(tt.bin("bvand", xt, yt), k)
	case token.OR:
		return tt.wrap(tt.bin("bvor", xt, yt), k)
	case token.XOR:
		return tt.wrap(tt.bin("bvxor", xt, yt), k)
	case token.AND_NOT:
		return tt.wrap(tt.bin("bvand", xt, tt.bin("bvxor", yt, tt.konst(yt.w, mask(yt.w)))), k)
	case token.EQL:
		return tt.wrap(tt.cmp("=", xt, yt), types.Bool)
	case token.NEQ:
		return tt.wrap(tt.not(tt.cmp("=", xt, yt)), types.Bool)
	case token.LSS:
		if sg {
			return tt.wrap(tt.cmp("bvslt", xt, yt), types.Bool)
		}
		return tt.wrap(tt.cmp("bvult", xt, yt), types.Bool)
	case token.LEQ:
		if sg {
			return tt.wrap(tt.cmp("bvsle", xt, yt), types.Bool)
		}
		return tt.wrap(tt.cmp("bvule", xt, yt), types.Bool)
	case token.GTR:
		if sg {
			return tt.wrap(tt.cmp("bvslt", yt, xt), types.Bool)
		}
		return tt.wrap(tt.cmp("bvult", yt, xt), types.Bool)
	case token.GEQ:
		if sg {
			return tt.wrap(tt.cmp("bvsle", yt, xt), types.Bool)
		}
		return tt.wrap(tt.cmp("bvule", yt, xt), types.Bool)
	}
	panic("sym: binop " + op.String())
}

func toSymstr(x value) symstr {
	switch x := x.(type) {
	case symstr:
		return x
	case string:
		r := make(symstr, len(x))
		for i := 0; i < len(x); i++ {
			r[i] = x[i]
		}
		return r
	}
	panic(fmt.Sprintf("toSymstr %T", x))
}

// normStr returns a Go string when all bytes are concrete.
func normStr(s symstr) value {
	b := make([]byte, len(s))
	for i, c := range s {
		cb, ok := c.(byte)
		if !ok {
			return s
		}
		b[i] = cb
	}
	return string(b)
}

func (tt *termTable) symStrBinop(op token.Token, x, y symstr) value {
	switch op {
	case token.ADD:
		r := make(symstr, 0, len(x)+len(y))
		r = append(r, x...)
		r = append(r, y...)
		return normStr(r)
	case token.EQL, token.NEQ:
		var c *term
		if len(x) != len(y) {
			c = tt.boolc(false)
		} else {
			c = tt.boolc(true)
			for i := range x {
				a, _ := tt.lift(x[i])
				b, _ := tt.lift(y[i])
				c = tt.and(c, tt.cmp("=", a, b))
			}
		}
		if op == token.NEQ {
			c = tt.not(c)
		}
		return tt.wrap(c, types.Bool)
	}
	switch op {
	case token.LSS, token.LEQ, token.GTR, token.GEQ:
		if op == token.GTR || op == token.GEQ {
			x, y = y, x
		}
		// lexicographic x < y (LSS/GTR) or x <= y (LEQ/GEQ), built from the end
		n := len(x)
		if len(y) < n {
			n = len(y)
		}
		var c *term
		if op == token.LSS || op == token.GTR {
			c = tt.boolc(len(x) < len(y))
		} else {
			c = tt.boolc(len(x) <= len(y))
		}
		for i := n - 1; i >= 0; i-- {
			a, _ := tt.lift(x[i])
			b, _ := tt.lift(y[i])
			c = tt.or(tt.cmp("bvult", a, b), tt.and(tt.cmp("=", a, b), c))
		}
		return tt.wrap(c, types.Bool)
	}
	panic("sym: string op " + op.String() + " unsupported")
}

func (tt *termTable) symUnop(op token.Token, x symv) value {
	switch op {
	case token.NOT:
		return tt.wrap(tt.not(x.t), types.Bool)
	case token.SUB:
		return tt.wrap(tt.bin("bvsub", tt.konst(x.t.w, 0), x.t), x.kind)
	case token.XOR:
		return tt.wrap(tt.bin("bvxor", x.t, tt.konst(x.t.w, mask(x.t.w))), x.kind)
	}
	panic("sym: unop " + op.String())
}

func (tt *termTable) symConvInt(x symv, dst types.BasicKind) value {
	if x.kind == types.Bool {
		panic("sym: conv from bool")
	}
	t := tt.ext(x.t, kindWidth(dst), kindSigned(x.kind))
	return tt.wrap(t, dst)
}

// loadSymElem builds the ite chain for cells[idx]; struct cells are
// handled field-wise.
func (tt *termTable) loadSymElem(p *symElemPtr) value {
	if len(p.cells) > 0 {
		if st, ok := p.cells[0].(structure); ok {
			res := make(structure, len(st))
			for f := range st {
				col := make([]value, len(p.cells))
				for i, c := range p.cells {
					col[i] = c.(structure)[f]
				}
				res[f] = tt.loadSymElem(&symElemPtr{col, p.idx})
			}
			return res
		}
	}
	var res *term
	var kind types.BasicKind
	for i := len(p.cells) - 1; i >= 0; i-- {
		ct, k := tt.lift(p.cells[i])
		kind = k
		if res == nil {
			res = ct
			continue
		}
		res = tt.ite(tt.cmp("=", p.idx, tt.konst(64, uint64(i))), ct, res)
	}
	return tt.wrap(res, kind)
}

// evaluator evaluates terms under an assignment (missing variables are 0).
type evaluator struct {
	env    map[int]uint64
	oneVar int // when env == nil: the single assigned variable
	oneVal uint64
	vals   []uint64
	gen    []uint32
	cur    uint32
}

// next invalidates the memo.
func (e *evaluator) next() {
	e.cur++
	if e.cur == 0 {
		for i := range e.gen {
			e.gen[i] = 0
		}
		e.cur = 1
	}
}

func (e *evaluator) eval(t *term) uint64 {
	if t.op == "const" {
		return t.val
	}
	if t.id >= len(e.gen) {
		n := t.id*2 + 64
		vals := make([]uint64, n)
		gen := make([]uint32, n)
		copy(vals, e.vals)
		copy(gen, e.gen)
		e.vals, e.gen = vals, gen
	}
	if e.gen[t.id] == e.cur {
		return e.vals[t.id]
	}
	v := e.evalTerm(t)
	e.vals[t.id] = v
	e.gen[t.id] = e.cur
	return v
}

func (e *evaluator) lookup(id int) uint64 {
	if e.env != nil {
		return e.env[id]
	}
	if id == e.oneVar {
		return e.oneVal
	}
	return 0
}

func (e *evaluator) evalTerm(t *term) uint64 {
	a := func(i int) uint64 { return e.eval(t.args[i]) }
	w := t.w
	switch t.op {
	case "const":
		return t.val
	case "var":
		return e.lookup(t.id) & mask(maxInt(w, 1))
	case "not":
		return 1 - a(0)
	case "and":
		for i := range t.args {
			if a(i) == 0 {
				return 0
			}
		}
		return 1
	case "or":
		for i := range t.args {
			if a(i) != 0 {
				return 1
			}
		}
		return 0
	case "ite":
		if a(0) != 0 {
			return a(1)
		}
		return a(2)
	case "=":
		return uint64(b2i(a(0) == a(1)))
	case "bvult":
		return uint64(b2i(a(0) < a(1)))
	case "bvule":
		return uint64(b2i(a(0) <= a(1)))
	case "bvslt":
		aw := t.args[0].w
		return uint64(b2i(sext64(a(0), aw) < sext64(a(1), aw)))
	case "bvsle":
		aw := t.args[0].w
		return uint64(b2i(sext64(a(0), aw) <= sext64(a(1), aw)))
	case "bvadd":
		return (a(0) + a(1)) & mask(w)
	case "bvsub":
		return (a(0) - a(1)) & mask(w)
	case "bvmul":
		return (a(0) * a(1)) & mask(w)
	case "bvand":
		return a(0) & a(1)
	case "bvor":
		return a(0) | a(1)
	case "bvxor":
		return a(0) ^ a(1)
	case "bvshl":
		if a(1) >= uint64(w) {
			return 0
		}
		return (a(0) << a(1)) & mask(w)
	case "bvlshr":
		if a(1) >= uint64(w) {
			return 0
		}
		return a(0) >> a(1)
	case "bvashr":
		n := a(1)
		if n >= uint64(w) {
			n = uint64(w - 1)
		}
		return uint64(sext64(a(0), w)>>n) & mask(w)
	case "bvudiv":
		if a(1) == 0 {
			return mask(w)
		}
		return a(0) / a(1)
	case "bvurem":
		if a(1) == 0 {
			return a(0)
		}
		return a(0) % a(1)
	case "bvsdiv":
		x, y := sext64(a(0), w), sext64(a(1), w)
		if y == 0 {
			if x < 0 {
				return 1
			}
			return mask(w)
		}
		if y == -1 {
			return uint64(-x) & mask(w)
		}
		return uint64(x/y) & mask(w)
	case "bvsrem":
		x, y := sext64(a(0), w), sext64(a(1), w)
		if y == 0 {
			return a(0)
		}
		if y == -1 {
			return 0
		}
		return uint64(x%y) & mask(w)
	case "extract":
		return (a(0) >> uint(t.b)) & mask(w)
	case "zext":
		return a(0)
	case "sext":
		return uint64(sext64(a(0), t.args[0].w)) & mask(w)
	}
	panic(unsupported{"evalTerm: op " + t.op})
}

func maxInt(a, b int) int {
	if a > b {
		return a
	}
	return b
}

func (tt *termTable) or(x, y *term) *term {
	if x.isConst() {
		if x.val != 0 {
			return x
		}
		return y
	}
	if y.isConst() {
		if y.val != 0 {
			return y
		}
		return x
	}
	return tt.mk(term{op: "or", w: 0, args: []*term{x, y}})
}

// support returns the variables t depends on, or nil if more than 4.
func (tt *termTable) support(t *term) []int {
	if t.suppDone {
		return t.supp
	}
	t.suppDone = true
	switch t.op {
	case "const":
		t.supp = []int{}
	case "var":
		t.supp = []int{t.id}
	default:
		set := []int{}
		for _, a := range t.args {
			sa := tt.support(a)
			if sa == nil {
				t.supp = nil
				return nil
			}
			for _, v := range sa {
				found := false
				for _, w := range set {
					if w == v {
						found = true
					}
				}
				if !found {
					set = append(set, v)
				}
			}
			if len(set) > 4 {
				t.supp = nil
				return nil
			}
		}
		t.supp = set
	}
	return t.supp
}

// sizeOf returns the number of nodes of t's DAG, capped at limit+1.
func (tt *termTable) sizeOf(t *term, limit int) int {
	if t.size != 0 {
		return t.size
	}
	seen := map[int]bool{}
	var walk func(x *term) bool
	n := 0
	walk = func(x *term) bool {
		if seen[x.id] {
			return true
		}
		seen[x.id] = true
		n++
		if n > limit {
			return false
		}
		for _, a := range x.args {
			if !walk(a) {
				return false
			}
		}
		return true
	}
	walk(t)
	t.size = n
	return n
}
