package interp

// gosym: symbol-aware replacements for the assembly routines of
// internal/bytealg.  Comparisons on symbolic bytes fork through the
// path manager.

import "go/types"

func cells(v value) []value {
	switch v := v.(type) {
	case []value:
		return v
	case string:
		return toSymstr(v)
	case symstr:
		return v
	case nil:
		return nil
	}
	unsup("bytealg: unexpected operand %T", v)
	return nil
}

// symEq decides a == b for two byte cells, forking if symbolic.
func symEq(a, b value) bool {
	_, as := a.(symv)
	_, bs := b.(symv)
	if !as && !bs {
		return a == b
	}
	at, _ := curTT.lift(a)
	bt, _ := curTT.lift(b)
	return curPC.branch(curTT.cmp("=", at, bt))
}

func symLess(a, b value) bool {
	_, as := a.(symv)
	_, bs := b.(symv)
	if !as && !bs {
		return a.(byte) < b.(byte)
	}
	at, _ := curTT.lift(a)
	bt, _ := curTT.lift(b)
	return curPC.branch(curTT.cmp("bvult", at, bt))
}

func baIndexByte(fr *frame, args []value) value {
	c := args[1]
	for i, x := range cells(args[0]) {
		if symEq(x, c) {
			return i
		}
	}
	return -1
}

func baCount(fr *frame, args []value) value {
	c := args[1]
	n := 0
	for _, x := range cells(args[0]) {
		if symEq(x, c) {
			n++
		}
	}
	return n
}

func baCompare(fr *frame, args []value) value {
	a, b := cells(args[0]), cells(args[1])
	for i := 0; i < len(a) && i < len(b); i++ {
		if symEq(a[i], b[i]) {
			continue
		}
		if symLess(a[i], b[i]) {
			return -1
		}
		return 1
	}
	switch {
	case len(a) < len(b):
		return -1
	case len(a) > len(b):
		return 1
	}
	return 0
}

func baIndex(fr *frame, args []value) value {
	a, b := cells(args[0]), cells(args[1])
	for i := 0; i+len(b) <= len(a); i++ {
		ok := true
		for j := range b {
			if !symEq(a[i+j], b[j]) {
				ok = false
				break
			}
		}
		if ok {
			return i
		}
	}
	return -1
}

func init() {
	externals["internal/bytealg.IndexByte"] = baIndexByte
	externals["internal/bytealg.IndexByteString"] = baIndexByte
	externals["internal/bytealg.Count"] = baCount
	externals["internal/bytealg.CountString"] = baCount
	externals["internal/bytealg.Compare"] = baCompare
	externals["internal/bytealg.CompareString"] = baCompare
	externals["internal/bytealg.Index"] = baIndex
	externals["internal/bytealg.IndexString"] = baIndex
	externals["internal/stringslite.Index"] = baIndex
	externals["internal/stringslite.IndexByte"] = baIndexByte
	externals["strings.Index"] = baIndex
	externals["bytes.Index"] = baIndex
	externals["strings.IndexByte"] = baIndexByte
	externals["bytes.IndexByte"] = baIndexByte
	_ = types.Byte
}
