//go:build verif
// +build verif

package zzverif

import (
	"fmt"

	"github.com/cockroachdb/redact"
	"github.com/cockroachdb/redact/internal/buffer"
)

const (
	accLen = iota
	accCap
	accString
	accRedactableString
	accRedactableBytes
	accGetMode
	nAccessors
)

func callAccessorSB(b *redact.StringBuilder, acc int) {
	switch acc {
	case accLen:
		_ = b.Len()
	case accCap:
		_ = b.Cap()
	case accString:
		_ = b.String()
	case accRedactableString:
		_ = b.RedactableString()
	case accRedactableBytes:
		_ = b.RedactableBytes()
	case accGetMode:
		_ = b.GetMode()
	}
}

func callAccessorMB(b *redact.ManualBuffer, acc int) {
	switch acc {
	case accLen:
		_ = b.Len()
	case accCap:
		_ = b.Cap()
	case accString:
		_ = b.String()
	case accRedactableString:
		_ = b.RedactableString()
	case accRedactableBytes:
		_ = b.RedactableBytes()
	case accGetMode:
		_ = b.GetMode()
	}
}

// H_c13: accessor purity and Reset/Take pristineness.
// p = [variant, which, pos, n, op1, op2, ...]
//
//	variant 0: StringBuilder, accessor `which` called after `pos` ops on copy 1 only
//	variant 1: StringBuilder, Reset(0)/TakeRedactableString(1)/TakeRedactableBytes(2) after pos ops, rest vs fresh
//	variant 2, 3: same on a ManualBuffer
func H_c13(p []int) {
	variant, which, pos, n := p[0], p[1], p[2], p[3]
	codes := p[4:]
	ops := make([]opRec, 0, len(codes))
	for k, c := range codes {
		if n >= 1000 {
			// a long validated prefix first (the buffer's storage is large and
			// has spare capacity), then payloads that leave a marker and a line
			// feed pending
			if k == 0 {
				o := opRec{code: c, bs: make([]byte, n-1000)}
				for j := range o.bs {
					o.bs[j] = 'x'
				}
				ops = append(ops, o)
			} else {
				ops = append(ops, mkOp(c, 111)) // template ".sn"
			}
			continue
		}
		ops = append(ops, mkOp(c, n))
	}
	vSite(fmt.Sprintf("variant=%d which=%d pos=%d", variant, which, pos))
	switch variant {
	case 0:
		var b1, b2 redact.StringBuilder
		for _, o := range ops[:pos] {
			applyBuilder(&b1, o)
			applyBuilder(&b2, o)
		}
		early := b1.RedactableString()
		earlyCopy := append([]byte{}, early...)
		_ = b2.RedactableString()
		callAccessorSB(&b1, which)
		for _, o := range ops[pos:] {
			applyBuilder(&b1, o)
			applyBuilder(&b2, o)
		}
		r1, r2 := []byte(b1.RedactableString()), []byte(b2.RedactableString())
		vObserve("r1", r1)
		vAssert(bytesEq(r1, r2), "C13/accessor-pure")
		vAssert(b1.Len() == len(r1), "C13/len")
		vAssert(b1.Len() == b2.Len(), "C13/len-agree")
		vAssert(bytesEq([]byte(b1.String()), []byte(b2.String())), "C13/string-agree")
		vAssert(b1.GetMode() == b2.GetMode(), "C13/mode-agree")
		vAssert(bytesEq([]byte(early), earlyCopy), "C13/early-string-stable")
	case 1:
		var b1, fresh redact.StringBuilder
		for _, o := range ops[:pos] {
			applyBuilder(&b1, o)
		}
		var taken []byte
		var takenS redact.RedactableString
		earlyS := b1.String()
		earlySCopy := append([]byte{}, earlyS...)
		switch which {
		case 0:
			b1.Reset()
		case 1:
			takenS = b1.TakeRedactableString()
			taken = append([]byte{}, takenS...)
		case 2:
			taken = append([]byte{}, b1.TakeRedactableBytes()...)
		}
		vAssert(b1.Len() == 0, "C13/empty-after-reset")
		for _, o := range ops[pos:] {
			applyBuilder(&b1, o)
			applyBuilder(&fresh, o)
		}
		vAssert(bytesEq([]byte(earlyS), earlySCopy), "C13/early-plain-string-stable")
		r1, r2 := []byte(b1.RedactableString()), []byte(fresh.RedactableString())
		vObserve("r1", r1)
		wf1, _ := wfls(r1)
		vAssert(wf1, "C01/wf-after-take")
		vAssert(bytesEq(r1, r2), "C13/pristine-after-reset-or-take")
		vAssert(b1.Len() == fresh.Len(), "C13/len-agree")
		if which == 1 {
			vAssert(bytesEq([]byte(takenS), taken), "C13/taken-string-stable")
		}
		if which != 0 {
			wf, _ := wfls(taken)
			vAssert(wf, "C01/wf-taken")
		}
	case 2:
		var b1, b2 redact.ManualBuffer
		for _, o := range ops[:pos] {
			applyManual(&b1, o)
			applyManual(&b2, o)
		}
		early := b1.RedactableString()
		earlyCopy := append([]byte{}, early...)
		_ = b2.RedactableString()
		callAccessorMB(&b1, which)
		for _, o := range ops[pos:] {
			applyManual(&b1, o)
			applyManual(&b2, o)
		}
		r1, r2 := []byte(b1.RedactableString()), []byte(b2.RedactableString())
		vObserve("r1", r1)
		vAssert(bytesEq(r1, r2), "C13/accessor-pure")
		vAssert(b1.Len() == len(r1), "C13/len")
		vAssert(bytesEq([]byte(early), earlyCopy), "C13/early-string-stable")
	case 3:
		var b1, fresh redact.ManualBuffer
		for _, o := range ops[:pos] {
			applyManual(&b1, o)
		}
		var taken []byte
		var takenS redact.RedactableString
		earlyS := b1.String()
		earlySCopy := append([]byte{}, earlyS...)
		defer func() { vAssert(bytesEq([]byte(earlyS), earlySCopy), "C13/early-plain-string-stable") }()
		switch which {
		case 0:
			b1.Reset()
		case 1:
			takenS = b1.TakeRedactableString()
			taken = append([]byte{}, takenS...)
		case 2:
			taken = append([]byte{}, b1.TakeRedactableBytes()...)
		}
		vAssert(b1.GetMode() == fresh.GetMode(), "C13/mode-pristine")
		vAssert(b1.Len() == 0, "C13/empty-after-reset")
		{
			// a direct write with no SetMode first: same as on a new object
			c1, c2 := b1, fresh
			probe := []byte("d‹")
			c1.Write(probe)
			c2.Write(probe)
			vAssert(bytesEq([]byte(c1.RedactableString()), []byte(c2.RedactableString())), "C13/direct-write-pristine")
		}
		for _, o := range ops[pos:] {
			applyManual(&b1, o)
			applyManual(&fresh, o)
		}
		r1, r2 := []byte(b1.RedactableString()), []byte(fresh.RedactableString())
		vObserve("r1", r1)
		wf1, _ := wfls(r1)
		vAssert(wf1, "C01/wf-after-take")
		vAssert(bytesEq(r1, r2), "C13/pristine-after-reset-or-take")
		if which == 1 {
			vAssert(bytesEq([]byte(takenS), taken), "C13/taken-string-stable")
		}
	case 4:
		// raw bytes (possibly ending in a truncated sequence), then a mode
		// switch with nothing written since: the accessors agree with each
		// other and with Take
		var b1 redact.ManualBuffer
		raw := vBytes(n)
		b1.SetMode(buffer.SafeRaw)
		b1.Write(raw)
		b1.SetMode([]buffer.OutputMode{buffer.UnsafeEscaped, buffer.SafeEscaped, buffer.SafeRaw}[which])
		rs := []byte(b1.RedactableString())
		rb := []byte(b1.RedactableBytes())
		vObserve("r1", rs)
		vAssert(bytesEq(rs, rb), "C13/accessors-agree")
		vAssert(b1.Len() == len(rs), "C13/len")
		st := []byte(b1.String())
		tk := []byte(b1.TakeRedactableString())
		vAssert(bytesEq(tk, rs), "C13/take-agrees-with-accessor")
		vAssert(bytesEq(st, strip(rs)), "C13/string-agree")
	}
	vCover(true, "ran")
}

func init() {
	Harnesses["H_c13"] = H_c13
}
