//go:build verif
// +build verif

package zzverif

import (
	"fmt"
	"strings"

	"github.com/cockroachdb/redact"
)

// H_c02: non-interference as constancy of the redacted output over all
// secrets of one signature class.  p = [kind, directive, n, lfpos]
// lfpos = -1: no line feed in the secret; otherwise the byte at lfpos is
// a line feed and no other byte is.
func H_c02(p []int) {
	kind, di, n, lfpos := p[0], p[1], p[2], p[3]
	d := directives[di]
	if addrLeak(kind, d) {
		return
	}
	bs := vBytes(n)
	for k := range bs {
		if k == lfpos {
			vAssume(bs[k] == '\n')
		} else {
			vAssume(bs[k] != '\n')
		}
	}
	i := 42
	skind := kind
	if strings.Contains(d, "*") {
		// the operand of a star width/precision is a public value
		skind = -1
	}
	switch skind {
	case vkInt, vkInt64Neg, vkMyInt, vkPubStruct, vkSliceInt, vkArrInt, vkMapStrInt, vkUintptr, vkUint64Big, vkSliceSafe, vkEnumStringer:
		i = vInt()
		vAssume(i >= 11)
		vAssume(i <= 9999)
		if strings.ContainsAny(d, "qUc") {
			vAssume(i < 0x100)
		}
	case vkUint8:
		b := vByte()
		vAssume(b >= 11)
		i = int(b)
	case vkRune:
		r := vRune()
		vAssume(validRune(r))
		vAssume(r >= 11)
		if strings.ContainsAny(d, "qU") {
			vAssume(r < 0x100)
		}
		i = int(r)
	case vkBool:
		i = int(vByte() & 1)
	}
	vSite(fmt.Sprintf("kind=%d dir=%q", kind, d))
	if len(p) > 4 && p[4] > 0 {
		// an unrelated earlier call on the same (recycled) printers
		c12History(p[4]-1, "h")
	}
	v := mkValue(kind, string(bs), i)
	r := catchRedact(func() redact.RedactableString { return redact.Sprintf(d, v, 3) })
	if r.panicked {
		return
	}
	out := []byte(r.out)
	vObserve("out", out)
	wf, _ := wfls(out)
	vAssert(wf, "C02/wf-needed-for-redaction")
	if !wf {
		return
	}
	vObserve("const:redacted", redactRef(out))
	vCover(n > 0, "symbolic-secret")
}

func init() {
	Harnesses["H_c02"] = H_c02
}
