//go:build verif
// +build verif

// Package zzverif holds the verification harnesses.  The files live in
// /verif/harness and are overlaid into /repo/zzverif at load time; they
// are executed symbolically by gosym (which intercepts the v* functions
// by name) and natively by nativemain (where the v* functions read a
// replay vector).  Go 1.14 syntax only.
package zzverif

import (
	"fmt"
	"runtime"
)

// Harnesses is the registry: name -> harness(shape parameters).
var Harnesses = map[string]func(p []int){}

// ---- intrinsics: native twins ----

var (
	replayVec []uint64
	replayPos int
	// Obs collects vObserve output natively.
	Obs = map[string]string{}
)

type assumeFailed struct{}
type assertFailed struct{ msg string }
type vectorExhausted struct{}

func next() uint64 {
	if raceStates != nil {
		st := raceStates[goid()]
		if st.pos >= len(replayVec) {
			panic(vectorExhausted{})
		}
		v := replayVec[st.pos]
		st.pos++
		return v
	}
	if replayPos >= len(replayVec) {
		panic(vectorExhausted{})
	}
	v := replayVec[replayPos]
	replayPos++
	return v
}

func vBytes(n int) []byte {
	r := make([]byte, n)
	for i := range r {
		r[i] = byte(next())
	}
	return r
}
func vByte() byte         { return byte(next()) }
func vRune() rune         { return rune(int32(uint32(next()))) }
func vInt() int           { return int(next()) }
func vInt64() int64       { return int64(next()) }
func vUint64() uint64     { return next() }
func vBool() bool         { return next() != 0 }
func vChoose(k int) int   { return int(next()) }
func vAnd(a, b bool) bool { return a && b }
func vOr(a, b bool) bool  { return a || b }
func vNot(a bool) bool    { return !a }
func vIteByte(c bool, a, b byte) byte {
	if c {
		return a
	}
	return b
}
func vSymbolic() bool { return false }

// vPoolAdversarial switches the engine's sync.Pool model between LIFO
// and adversarial reuse (no effect natively).
func vPoolAdversarial(on bool) {}

// vPoolReuses reports how many Get calls were served from the free list
// (engine fact; natively unknown).
func vPoolReuses() int { return -1 }
func vAssume(b bool) {
	if !b {
		panic(assumeFailed{})
	}
}
func vAssert(b bool, msg string) {
	if !vProp(propOf(msg)) {
		return
	}
	if !b {
		panic(assertFailed{msg})
	}
}

// ActiveProps lists the property ids whose assertions are active
// (empty = all).
var ActiveProps []string

func propOf(msg string) string {
	for i := 0; i < len(msg); i++ {
		if msg[i] == '/' {
			return msg[:i]
		}
	}
	return ""
}

// vProp reports whether assertions of property id are active.
func vProp(id string) bool {
	if len(ActiveProps) == 0 || id == "" {
		return true
	}
	for _, p := range ActiveProps {
		if p == id {
			return true
		}
	}
	return false
}
func vCover(b bool, tag string) {}
func vSite(s string) {
	if raceStates != nil {
		return
	}
	Obs["site"] = fmt.Sprintf("%x", s)
}
func vLog(x interface{}) {}
func vObserve(tag string, b []byte) {
	if raceStates != nil {
		return
	}
	h := fmt.Sprintf("%x", b)
	if prev, ok := Obs[tag]; ok {
		h = prev + "|" + h
	}
	Obs[tag] = h
}

// RunNative runs one harness natively on a replay vector.
func RunNative(name string, args []int, vec []uint64, props []string) (outcome string, obs map[string]string) {
	ActiveProps = props
	replayVec, replayPos = vec, 0
	Obs = map[string]string{}
	h := Harnesses[name]
	if h == nil {
		return "noharness", nil
	}
	resetGlobals()
	defer func() {
		obs = Obs
		if r := recover(); r != nil {
			switch x := r.(type) {
			case assumeFailed:
				outcome = "assume"
			case assertFailed:
				outcome = "assert:" + x.msg
			case vectorExhausted:
				outcome = "vector-exhausted"
			default:
				outcome = fmt.Sprintf("panic:%v", r)
			}
		}
	}()
	h(args)
	return "ok", Obs
}

// ---- concurrent native replay (C12 use-after-release confirmation) ----
//
// RaceNative runs one harness vector in g goroutines, n times each, in a
// binary built with -race.  The intrinsics keep their cursor per
// goroutine (a table filled before the goroutines are released and
// read-only afterwards, so that the harness itself adds no
// synchronisation and no races); observations are not recorded and
// failed assertions are ignored: the verdict is the race detector's
// report on the library code.

type raceState struct{ pos int }

var raceStates map[int64]*raceState

func goid() int64 {
	var buf [64]byte
	n := runtime.Stack(buf[:], false)
	// "goroutine 123 ["
	var id int64
	for i := len("goroutine "); i < n && buf[i] >= '0' && buf[i] <= '9'; i++ {
		id = id*10 + int64(buf[i]-'0')
	}
	return id
}

func RaceNative(name string, args []int, vec []uint64, props []string, g, n int) string {
	h := Harnesses[name]
	if h == nil {
		return "noharness"
	}
	ActiveProps = props
	replayVec = vec
	resetGlobals()
	ids := make(chan int64)
	start := make(chan struct{})
	done := make(chan struct{})
	for i := 0; i < g; i++ {
		go func() {
			id := goid()
			ids <- id
			<-start
			st := raceStates[id]
			for k := 0; k < n; k++ {
				st.pos = 0
				func() {
					defer func() { recover() }()
					h(args)
				}()
			}
			done <- struct{}{}
		}()
	}
	m := map[int64]*raceState{}
	for i := 0; i < g; i++ {
		m[<-ids] = &raceState{}
	}
	raceStates = m
	close(start)
	for i := 0; i < g; i++ {
		<-done
	}
	raceStates = nil
	return "ok"
}

// ---- byte-level reference oracles (DESIGN §4) ----

// S = E2 80 B9, E = E2 80 BA, X = C3 97.

func isS(b []byte, i int) bool {
	if i+3 > len(b) {
		return false
	}
	return vAnd(vAnd(b[i] == 0xE2, b[i+1] == 0x80), b[i+2] == 0xB9)
}
func isE(b []byte, i int) bool {
	if i+3 > len(b) {
		return false
	}
	return vAnd(vAnd(b[i] == 0xE2, b[i+1] == 0x80), b[i+2] == 0xBA)
}

// isM: S or E at i (one term).
func isM(b []byte, i int) bool {
	if i+3 > len(b) {
		return false
	}
	return vAnd(vAnd(b[i] == 0xE2, b[i+1] == 0x80), vOr(b[i+2] == 0xB9, b[i+2] == 0xBA))
}

// wfls reports well-formedness (alternating, closed) and line safety.
func wfls(b []byte) (wf bool, lineSafe bool) {
	open := false
	lineSafe = true
	for i := 0; i < len(b); {
		if isM(b, i) {
			if b[i+2] == 0xB9 {
				if open {
					return false, lineSafe
				}
				open = true
			} else {
				if !open {
					return false, lineSafe
				}
				open = false
			}
			i += 3
		} else {
			if open {
				if b[i] == '\n' {
					lineSafe = false
				}
			}
			i++
		}
	}
	return !open, lineSafe
}

// linesWF: every LF-separated line of b is well-formed on its own (C03,
// second sentence).
func linesWF(b []byte) bool {
	start := 0
	for k := 0; k <= len(b); k++ {
		if k == len(b) || b[k] == '\n' {
			w, _ := wfls(b[start:k])
			if !w {
				return false
			}
			start = k + 1
		}
	}
	return true
}

// strip deletes every S and E.
func strip(b []byte) []byte {
	out := make([]byte, 0, len(b))
	for i := 0; i < len(b); {
		if isM(b, i) {
			i += 3
		} else {
			out = append(out, b[i])
			i++
		}
	}
	return out
}

// esc replaces every S and E by '?'.
func esc(b []byte) []byte {
	out := make([]byte, 0, len(b))
	for i := 0; i < len(b); {
		if isM(b, i) {
			out = append(out, '?')
			i += 3
		} else {
			out = append(out, b[i])
			i++
		}
	}
	return out
}

// delEnv deletes every envelope with its delimiters (input must be wf).
func delEnv(b []byte) []byte {
	out := make([]byte, 0, len(b))
	open := false
	for i := 0; i < len(b); {
		if isM(b, i) {
			open = b[i+2] == 0xB9
			i += 3
		} else {
			if !open {
				out = append(out, b[i])
			}
			i++
		}
	}
	return out
}

// envContent returns the bytes inside envelopes.
func envContent(b []byte) []byte {
	out := make([]byte, 0, len(b))
	open := false
	for i := 0; i < len(b); {
		if isM(b, i) {
			open = b[i+2] == 0xB9
			i += 3
		} else {
			if open {
				out = append(out, b[i])
			}
			i++
		}
	}
	return out
}

// mergeAdj deletes every "E S" pair and every empty envelope "S E".
func mergeAdj(b []byte) []byte {
	out := make([]byte, 0, len(b))
	for i := 0; i < len(b); {
		if isE(b, i) && isS(b, i+3) {
			i += 6
		} else if isS(b, i) && isE(b, i+3) {
			i += 6
		} else {
			out = append(out, b[i])
			i++
		}
	}
	return out
}

// redactRef replaces every envelope by S X E (input must be wf).
func redactRef(b []byte) []byte {
	out := make([]byte, 0, len(b)+8)
	open := false
	for i := 0; i < len(b); {
		if isM(b, i) {
			if b[i+2] == 0xB9 {
				open = true
				out = append(out, 0xE2, 0x80, 0xB9, 0xC3, 0x97, 0xE2, 0x80, 0xBA)
			} else {
				open = false
			}
			i += 3
		} else {
			if !open {
				out = append(out, b[i])
			}
			i++
		}
	}
	return out
}

// nlOf is the subsequence of line feeds.
func nlOf(b []byte) []byte {
	out := make([]byte, 0, len(b))
	for i := range b {
		if b[i] == '\n' {
			out = append(out, '\n')
		}
	}
	return out
}

func hasMarker(b []byte) bool {
	r := false
	for i := 0; i+3 <= len(b); i++ {
		r = vOr(r, isM(b, i))
	}
	return r
}

// bytesEq is a single-term equality of two byte strings.
func bytesEq(a, b []byte) bool {
	if len(a) != len(b) {
		return false
	}
	r := true
	for i := range a {
		r = vAnd(r, a[i] == b[i])
	}
	return r
}

func hasPrefix(a, p []byte) bool {
	return len(a) >= len(p) && bytesEq(a[:len(p)], p)
}

func cat(parts ...[]byte) []byte {
	var out []byte
	for _, p := range parts {
		out = append(out, p...)
	}
	return out
}

// validUTF8 as a forking oracle (used as an assumption on payloads).
func validUTF8(b []byte) bool {
	for i := 0; i < len(b); {
		c := b[i]
		if c < 0x80 {
			i++
			continue
		}
		n := 0
		lo, hi := byte(0x80), byte(0xBF)
		switch {
		case c >= 0xC2 && c <= 0xDF:
			n = 1
		case c == 0xE0:
			n, lo = 2, 0xA0
		case c >= 0xE1 && c <= 0xEC:
			n = 2
		case c == 0xED:
			n, hi = 2, 0x9F
		case c >= 0xEE && c <= 0xEF:
			n = 2
		case c == 0xF0:
			n, lo = 3, 0x90
		case c >= 0xF1 && c <= 0xF3:
			n = 3
		case c == 0xF4:
			n, hi = 3, 0x8F
		default:
			return false
		}
		if i+n >= len(b) {
			return false
		}
		if b[i+1] < lo || b[i+1] > hi {
			return false
		}
		for k := 2; k <= n; k++ {
			if b[i+k] < 0x80 || b[i+k] > 0xBF {
				return false
			}
		}
		i += n + 1
	}
	return true
}

// vAssumeValidUTF8 assumes b is valid UTF-8.  For len(b) <= 3 the
// assumption is one term (a disjunction over the possible rune
// structures), so it does not fork; longer strings use the forking oracle.
func vAssumeValidUTF8(b []byte) {
	asc := func(c byte) bool { return c < 0x80 }
	cont := func(c byte) bool { return vAnd(c >= 0x80, c <= 0xBF) }
	two := func(a, c byte) bool { return vAnd(vAnd(a >= 0xC2, a <= 0xDF), cont(c)) }
	three := func(a, c, d byte) bool {
		lead := vOr(vOr(vAnd(a == 0xE0, vAnd(c >= 0xA0, c <= 0xBF)), vAnd(vAnd(a >= 0xE1, a <= 0xEC), cont(c))),
			vOr(vAnd(a == 0xED, vAnd(c >= 0x80, c <= 0x9F)), vAnd(vAnd(a >= 0xEE, a <= 0xEF), cont(c))))
		return vAnd(lead, cont(d))
	}
	switch len(b) {
	case 0:
	case 1:
		vAssume(asc(b[0]))
	case 2:
		vAssume(vOr(vAnd(asc(b[0]), asc(b[1])), two(b[0], b[1])))
	case 3:
		vAssume(vOr(vOr(vAnd(vAnd(asc(b[0]), asc(b[1])), asc(b[2])), three(b[0], b[1], b[2])),
			vOr(vAnd(asc(b[0]), two(b[1], b[2])), vAnd(two(b[0], b[1]), asc(b[2])))))
	default:
		vAssume(validUTF8(b))
	}
}

var (
	mS = []byte{0xE2, 0x80, 0xB9}
	mE = []byte{0xE2, 0x80, 0xBA}
	mX = []byte{0xC3, 0x97}
)

// resetGlobals is called before every native run; hooks append to it.
var resetFns []func()

func resetGlobals() {
	for _, f := range resetFns {
		f()
	}
}
