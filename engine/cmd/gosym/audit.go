package main

import (
	"bufio"
	"fmt"
	"os"
	"os/exec"
	"strings"
	"time"
)

// auditMain re-decides a recorded solver session (GOSYM_SMTLOG) with a
// second solver (cvc5 --incremental) and compares every verdict with the
// one z3 gave during the run ("; RESULT ..." comments in the log).
func auditMain(args []string) int {
	if len(args) < 1 {
		fmt.Fprintln(os.Stderr, "usage: gosym audit <smtlog> [max-queries]")
		return 2
	}
	maxQ := 1 << 30
	if len(args) > 1 {
		fmt.Sscanf(args[1], "%d", &maxQ)
	}
	f, err := os.Open(args[0])
	if err != nil {
		fmt.Fprintln(os.Stderr, err)
		return 2
	}
	defer f.Close()
	tmp, _ := os.CreateTemp("", "gosym-audit-*.smt2")
	defer os.Remove(tmp.Name())
	w := bufio.NewWriter(tmp)
	var want []string
	sc := bufio.NewScanner(f)
	sc.Buffer(make([]byte, 1<<20), 1<<26)
	nq := 0
	for sc.Scan() {
		line := sc.Text()
		switch {
		case strings.HasPrefix(line, "; RESULT "):
			want = append(want, strings.TrimPrefix(line, "; RESULT "))
			continue
		case strings.HasPrefix(line, "(set-option"), strings.HasPrefix(line, "(echo"):
			continue
		case strings.HasPrefix(line, "(get-value"):
			continue
		}
		if line == "(check-sat)" {
			nq++
			if nq > maxQ {
				break
			}
		}
		fmt.Fprintln(w, line)
	}
	w.Flush()
	tmp.Close()
	if len(want) > nq {
		want = want[:nq]
	}
	t0 := time.Now()
	out, err := exec.Command("cvc5", "--incremental", "--lang", "smt2", tmp.Name()).Output()
	var got []string
	for _, l := range strings.Split(string(out), "\n") {
		l = strings.TrimSpace(l)
		if l == "sat" || l == "unsat" || l == "unknown" {
			got = append(got, l)
		}
	}
	if err != nil && len(got) == 0 {
		fmt.Fprintln(os.Stderr, "cvc5:", err)
		return 2
	}
	dis, cmp := 0, 0
	for i := range want {
		if i >= len(got) {
			break
		}
		if want[i] == "unknown" || got[i] == "unknown" {
			continue
		}
		cmp++
		if want[i] != got[i] {
			dis++
			if dis <= 5 {
				fmt.Printf("DISAGREEMENT at query %d: z3 %s, cvc5 %s\n", i, want[i], got[i])
			}
		}
	}
	fmt.Printf("audit: %d queries recorded, %d answered by cvc5, %d compared, %d disagreements, cvc5 %.1fs\n", len(want), len(got), cmp, dis, time.Since(t0).Seconds())
	if dis > 0 {
		return 1
	}
	return 0
}
