package interp

// gosym regexp model.  regexp.MustCompile compiles the *actual pattern
// string the target program passes* with the host regexp/syntax;
// ReplaceAll / ReplaceAllString run a leftmost-first backtracking
// matcher over that syntax.Prog (the semantics of Go's non-POSIX
// regexp), wrapped in a transcription of regexp.(*Regexp).replaceAll.
// Rune tests on symbolic input fork through the path manager.  The Go
// regexp *engine* is modelled (trusted, diffed against the host engine
// at setup); the pattern and its call sites are the real ones.

import (
	"go/token"
	"go/types"
	"regexp"
	"regexp/syntax"
	"strings"
)

type reHandle struct {
	re   *regexp.Regexp
	src  string
	prog *syntax.Prog
}

func resetRegexpModel() {}

func compileModel(src string) *reHandle {
	h := &reHandle{re: regexp.MustCompile(src), src: src}
	rx, err := syntax.Parse(src, syntax.Perl)
	if err == nil {
		rx = rx.Simplify()
		if p, err := syntax.Compile(rx); err == nil {
			h.prog = p
		}
	}
	return h
}

func init() {
	externals["regexp.MustCompile"] = func(fr *frame, args []value) value {
		src, ok := args[0].(string)
		if !ok {
			unsup("regexp.MustCompile of a symbolic pattern")
		}
		v := value(compileModel(src))
		return &v
	}
	externals["(*regexp.Regexp).ReplaceAllString"] = func(fr *frame, args []value) value {
		h := (*args[0].(*value)).(*reHandle)
		s, ok1 := args[1].(string)
		r, ok2 := args[2].(string)
		if ok1 && ok2 && !ForceRegexpModel {
			return h.re.ReplaceAllString(s, r)
		}
		out := reReplaceAll(fr, h, []value(toSymstr(args[1])), []value(toSymstr(args[2])))
		return normStr(symstr(out))
	}
	externals["(*regexp.Regexp).ReplaceAll"] = func(fr *frame, args []value) value {
		h := (*args[0].(*value)).(*reHandle)
		src, _ := args[1].([]value)
		repl, _ := args[2].([]value)
		sb, ok1 := concBytes(src)
		rb, ok2 := concBytes(repl)
		if ok1 && ok2 && !ForceRegexpModel {
			out := h.re.ReplaceAll(sb, rb)
			if out == nil {
				return []value(nil)
			}
			res := make([]value, len(out))
			for i, c := range out {
				res[i] = c
			}
			return res
		}
		return reReplaceAll(fr, h, src, repl)
	}
	// Find*/Match family: a transcription of regexp.(*Regexp).allMatches
	// over the same matcher
	handle := func(args []value) *reHandle { return (*args[0].(*value)).(*reHandle) }
	srcOf := func(v value) []value {
		if b, ok := v.([]value); ok {
			return b
		}
		return []value(toSymstr(v))
	}
	pairs := func(ms [][2]int) value {
		if len(ms) == 0 {
			return []value(nil)
		}
		out := make([]value, len(ms))
		for i, m := range ms {
			out[i] = []value{m[0], m[1]}
		}
		return out
	}
	for _, n := range []string{"FindAllStringIndex", "FindAllIndex"} {
		externals["(*regexp.Regexp)."+n] = func(fr *frame, args []value) value {
			return pairs(reAllMatches(handle(args), srcOf(args[1]), args[2].(int)))
		}
	}
	for _, n := range []string{"FindStringIndex", "FindIndex"} {
		externals["(*regexp.Regexp)."+n] = func(fr *frame, args []value) value {
			ms := reAllMatches(handle(args), srcOf(args[1]), 1)
			if len(ms) == 0 {
				return []value(nil)
			}
			return []value{ms[0][0], ms[0][1]}
		}
	}
	for _, n := range []string{"MatchString", "Match"} {
		externals["(*regexp.Regexp)."+n] = func(fr *frame, args []value) value {
			return len(reAllMatches(handle(args), srcOf(args[1]), 1)) > 0
		}
	}
	externals["(*regexp.Regexp).FindAllString"] = func(fr *frame, args []value) value {
		src := srcOf(args[1])
		ms := reAllMatches(handle(args), src, args[2].(int))
		if len(ms) == 0 {
			return []value(nil)
		}
		out := make([]value, len(ms))
		for i, m := range ms {
			out[i] = normStr(symstr(src[m[0]:m[1]]))
		}
		return out
	}
	externals["(*regexp.Regexp).FindAll"] = func(fr *frame, args []value) value {
		src := srcOf(args[1])
		ms := reAllMatches(handle(args), src, args[2].(int))
		if len(ms) == 0 {
			return []value(nil)
		}
		out := make([]value, len(ms))
		for i, m := range ms {
			out[i] = src[m[0]:m[1]:m[1]]
		}
		return out
	}
	externals["(*regexp.Regexp).FindString"] = func(fr *frame, args []value) value {
		src := srcOf(args[1])
		ms := reAllMatches(handle(args), src, 1)
		if len(ms) == 0 {
			return ""
		}
		return normStr(symstr(src[ms[0][0]:ms[0][1]]))
	}
	externals["(*regexp.Regexp).String"] = func(fr *frame, args []value) value {
		return (*args[0].(*value)).(*reHandle).src
	}
}

// ForceRegexpModel makes concrete inputs go through the model too (used
// by the selftest that diffs the model against the host engine).
var ForceRegexpModel = false

func concBytes(v []value) ([]byte, bool) {
	b := make([]byte, len(v))
	for i, c := range v {
		cb, ok := c.(byte)
		if !ok {
			return nil, false
		}
		b[i] = cb
	}
	return b, true
}

type runeAt struct {
	r     value // int32 or symv(int32)
	pos   int
	width int
}

// decodeChain decodes src from byte 0 with the real utf8.DecodeRune.
func decodeChain(src []value) []runeAt {
	fn := curInterp.prog.ImportedPackage("unicode/utf8").Func("DecodeRune")
	var out []runeAt
	for i := 0; i < len(src); {
		t := call(curInterp, nil, token.NoPos, fn, []value{src[i:]}).(tuple)
		w := t[1].(int)
		out = append(out, runeAt{t[0], i, w})
		i += w
	}
	return out
}

type reMatcher struct {
	prog    *syntax.Prog
	runes   []runeAt
	visited map[[2]int]bool
}

func runeIn(r value, ranges []rune, foldCase bool) bool {
	if foldCase {
		unsup("regexp model: case folding")
	}
	rt, _ := curTT.lift(r)
	cond := curTT.boolc(false)
	if len(ranges) == 1 {
		cond = curTT.cmp("=", rt, curTT.konst(32, uint64(uint32(ranges[0]))))
	} else {
		for k := 0; k+1 < len(ranges); k += 2 {
			lo := curTT.konst(32, uint64(uint32(ranges[k])))
			hi := curTT.konst(32, uint64(uint32(ranges[k+1])))
			in := curTT.and(curTT.cmp("bvsle", lo, rt), curTT.cmp("bvsle", rt, hi))
			cond = curTT.or(cond, in)
		}
	}
	return curPC.branch(cond)
}

// run returns the rune index at which the match ends, or -1.
func (m *reMatcher) run(pc uint32, i int) int {
	for {
		key := [2]int{int(pc), i}
		if m.visited[key] {
			return -1
		}
		m.visited[key] = true
		inst := &m.prog.Inst[pc]
		switch inst.Op {
		case syntax.InstFail:
			return -1
		case syntax.InstMatch:
			return i
		case syntax.InstNop, syntax.InstCapture:
			pc = inst.Out
		case syntax.InstAlt:
			if e := m.run(inst.Out, i); e >= 0 {
				return e
			}
			pc = inst.Arg
		case syntax.InstAltMatch:
			unsup("regexp model: InstAltMatch")
		case syntax.InstEmptyWidth:
			unsup("regexp model: empty-width assertion")
		case syntax.InstRune, syntax.InstRune1:
			if i >= len(m.runes) {
				return -1
			}
			if !runeIn(m.runes[i].r, inst.Rune, syntax.Flags(inst.Arg)&syntax.FoldCase != 0) {
				return -1
			}
			pc = inst.Out
			i++
		case syntax.InstRuneAny:
			if i >= len(m.runes) {
				return -1
			}
			pc = inst.Out
			i++
		case syntax.InstRuneAnyNotNL:
			if i >= len(m.runes) {
				return -1
			}
			rt, _ := curTT.lift(m.runes[i].r)
			if curPC.branch(curTT.cmp("=", rt, curTT.konst(32, '\n'))) {
				return -1
			}
			pc = inst.Out
			i++
		default:
			unsup("regexp model: instruction %v", inst.Op)
		}
	}
}

// reAllMatches transcribes regexp.(*Regexp).allMatches: the byte ranges
// of up to n (all if n < 0) successive non-overlapping matches.
func reAllMatches(h *reHandle, src []value, n int) [][2]int {
	if h.prog == nil {
		unsup("regexp model: pattern not compilable by regexp/syntax")
	}
	if strings.HasPrefix(h.src, "^") {
		unsup("regexp model: anchored pattern")
	}
	if n < 0 {
		n = len(src) + 1
	}
	runes := decodeChain(src)
	posOf := func(ri int) int {
		if ri >= len(runes) {
			return len(src)
		}
		return runes[ri].pos
	}
	var out [][2]int
	prevMatchEnd := -1
	for pos, i := 0, 0; i < n && pos <= len(runes); {
		ms, me := -1, -1
		for s := pos; s <= len(runes); s++ {
			m := &reMatcher{prog: h.prog, runes: runes, visited: map[[2]int]bool{}}
			if e := m.run(uint32(h.prog.Start), s); e >= 0 {
				ms, me = s, e
				break
			}
		}
		if ms < 0 {
			break
		}
		accept := true
		if me == pos {
			// an empty match at pos
			if ms == prevMatchEnd {
				accept = false
			}
			pos++
		} else {
			pos = me
		}
		prevMatchEnd = me
		if accept {
			out = append(out, [2]int{posOf(ms), posOf(me)})
			i++
		}
	}
	return out
}

// reReplaceAll transcribes regexp.(*Regexp).replaceAll for a literal
// replacement.
func reReplaceAll(fr *frame, h *reHandle, src, repl []value) []value {
	if h.prog == nil {
		unsup("regexp model: pattern not compilable by regexp/syntax")
	}
	for _, c := range repl {
		if b, ok := c.(byte); ok && b == '$' {
			unsup("regexp model: $ in replacement")
		}
		if _, ok := c.(symv); ok {
			unsup("regexp model: symbolic replacement")
		}
	}
	if strings.HasPrefix(h.src, "^") {
		unsup("regexp model: anchored pattern")
	}
	runes := decodeChain(src)
	// byte position -> rune index
	posOf := func(ri int) int {
		if ri >= len(runes) {
			return len(src)
		}
		return runes[ri].pos
	}
	lastMatchEnd := 0 // rune index
	search := 0       // rune index
	var buf []value
	for search <= len(runes) {
		// leftmost match starting at or after search
		ms, me := -1, -1
		for s := search; s <= len(runes); s++ {
			m := &reMatcher{prog: h.prog, runes: runes, visited: map[[2]int]bool{}}
			if e := m.run(uint32(h.prog.Start), s); e >= 0 {
				ms, me = s, e
				break
			}
		}
		if ms < 0 {
			break
		}
		buf = append(buf, src[posOf(lastMatchEnd):posOf(ms)]...)
		if me > lastMatchEnd || ms == 0 {
			buf = append(buf, repl...)
		}
		lastMatchEnd = me
		// advance past this match; always at least one rune
		if search+1 > me {
			search++
		} else {
			search = me
		}
	}
	buf = append(buf, src[posOf(lastMatchEnd):]...)
	_ = types.Byte
	return buf
}
