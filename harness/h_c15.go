//go:build verif
// +build verif

package zzverif

import (
	"errors"
	"fmt"
	"strings"

	"github.com/cockroachdb/redact"
)

// format tokens of C15
var c15Tokens = []string{"%w", "%v", "%d", "%s", "lit‹", "%%", "%5w", "%-8w", "%[1]w", "%[2]w", "%+w", "%[3]w", "%x"}

// c15Operand builds operand kind k.
//
//	0 error(Σ text)  1 wrapping error  2 nil  3 int  4 Σ string
//	5 Safe(error)  6 Unsafe(error)  7 nil-receiver error pointer  8 struct  9 []error
func c15Operand(k int, s string) (v interface{}, isErr bool, inner error) {
	switch k {
	case 0:
		e := valErr{s}
		return e, true, e
	case 1:
		e := &wrapErr{"w", valErr{s}}
		return e, true, e
	case 2:
		return nil, false, nil
	case 3:
		return 7, false, nil
	case 4:
		return s, false, nil
	case 5:
		e := valErr{s}
		return redact.Safe(e), true, e
	case 6:
		e := valErr{s}
		return redact.Unsafe(e), true, e
	case 7:
		e := (*nilErr)(nil)
		return e, true, e
	case 8:
		return pubStruct{s, 1}, false, nil
	case 9:
		return []error{valErr{s}}, false, nil
	case 10:
		// not an error; its SafeFormat prints with a %w of its own, which is
		// a misuse inside the nested call and must not reach the outer capture
		return sfInnerW{s}, false, nil
	}
	panic("c15Operand")
}

type sfInnerW struct{ s string }

func (x sfInnerW) SafeFormat(w redact.SafePrinter, verb rune) {
	w.Printf("op(%w)", valErr{x.s})
}

// H_c15: HelperForErrorf against its reference semantics and fmt.Errorf.
// p = [n, ntok, tok1..tokN, operand kinds...]
func H_c15(p []int) {
	n, ntok := p[0], p[1]
	toks := p[2 : 2+ntok]
	opk := p[2+ntok:]
	bs := vBytes(n)
	vAssumeValidUTF8(bs)
	s := string(bs)
	format := ""
	for k, t := range toks {
		if k > 0 {
			format += " "
		}
		format += c15Tokens[t]
	}
	var args []interface{}
	var isErr []bool
	var inner []error
	for _, k := range opk {
		v, e, in := c15Operand(k, s)
		args = append(args, v)
		isErr = append(isErr, e)
		inner = append(inner, in)
	}
	vSite(fmt.Sprintf("format=%q operands=%v", format, opk))

	// reference: walk the tokens like the printer does
	argNum := 0
	wrapErrs := true
	var wrapped error
	nW := 0
	refFormat := ""
	reordered := false
	for k, t := range toks {
		tok := c15Tokens[t]
		if k > 0 {
			refFormat += " "
		}
		if tok == "lit‹" || tok == "%%" {
			refFormat += tok
			continue
		}
		if i := strings.Index(tok, "["); i >= 0 {
			argNum = int(tok[i+1]-'0') - 1
			reordered = true
		}
		isW := strings.HasSuffix(tok, "w")
		if isW {
			nW++
			ok := argNum >= 0 && argNum < len(args) && isErr[argNum] && wrapErrs && wrapped == nil
			if ok {
				wrapped = inner[argNum]
				refFormat += tok[:len(tok)-1] + "v"
			} else {
				wrapped = nil
				wrapErrs = false
				refFormat += tok
			}
		} else {
			refFormat += tok
		}
		argNum++
	}
	_ = reordered
	wantErr := wrapped
	if nW != 1 {
		wantErr = nil
	}

	text, err := redact.HelperForErrorf(format, args...)
	vObserve("text", []byte(text))
	if err != nil {
		vObserve("err", []byte(err.Error()))
	}
	vAssert((err == nil) == (wantErr == nil), "C15/returned-error-nilness")
	if err != nil && wantErr != nil {
		vAssert(err == wantErr, "C15/returned-error-identity")
	}
	// text == Sprintf with the accepted %w rewritten to %v
	want := redact.Sprintf(refFormat, args...)
	vAssert(bytesEq([]byte(text), []byte(want)), "C15/text-as-sprintf")
	// at most one %w: agree with fmt.Errorf (operands without redact wrappers)
	plain := true
	for _, k := range opk {
		if k == 5 || k == 6 || k == 10 {
			plain = false
		}
	}
	if nW <= 1 && plain {
		fe := fmt.Errorf(format, args...)
		vAssert(bytesEq(strip([]byte(text)), esc([]byte(fe.Error()))), "C15/text-as-fmt-errorf")
		vAssert(errors.Unwrap(fe) == err, "C15/unwrap-as-fmt-errorf")
	}
	vCover(nW == 1 && wantErr != nil, "valid-wrap")
	vCover(nW >= 2, "multiple-w")
}

func init() {
	Harnesses["H_c15"] = H_c15
}
