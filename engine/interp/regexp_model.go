package interp

// Placeholder regexp model: concrete strings are handled by the host
// regexp; symbolic input is unsupported until the Prog interpreter is in.

import (
	"regexp"
)

type reHandle struct {
	re  *regexp.Regexp
	src string
}

func resetRegexpModel() {}

func init() {
	externals["regexp.MustCompile"] = func(fr *frame, args []value) value {
		src := args[0].(string)
		v := value(&reHandle{regexp.MustCompile(src), src})
		return &v
	}
	externals["(*regexp.Regexp).ReplaceAllString"] = func(fr *frame, args []value) value {
		h := (*args[0].(*value)).(*reHandle)
		s, ok1 := args[1].(string)
		r, ok2 := args[2].(string)
		if !ok1 || !ok2 {
			return reReplaceSym(fr, h, toSymstr(args[1]), toSymstr(args[2]))
		}
		return h.re.ReplaceAllString(s, r)
	}
	externals["(*regexp.Regexp).ReplaceAll"] = func(fr *frame, args []value) value {
		h := (*args[0].(*value)).(*reHandle)
		src := args[1].([]value)
		repl := args[2].([]value)
		sb, ok1 := concBytes(src)
		rb, ok2 := concBytes(repl)
		if !ok1 || !ok2 {
			out := reReplaceSym(fr, h, symstr(src), symstr(repl))
			return []value(toSymstr(out))
		}
		out := h.re.ReplaceAll(sb, rb)
		if out == nil {
			return []value(nil)
		}
		res := make([]value, len(out))
		for i, c := range out {
			res[i] = c
		}
		return res
	}
}

func concBytes(v []value) ([]byte, bool) {
	b := make([]byte, len(v))
	for i, c := range v {
		cb, ok := c.(byte)
		if !ok {
			return nil, false
		}
		b[i] = cb
	}
	return b, true
}

func reReplaceSym(fr *frame, h *reHandle, src, repl symstr) value {
	unsup("regexp on symbolic input not modelled yet")
	return nil
}
