//go:build verif
// +build verif

package zzverif

import (
	"fmt"
	"strings"

	"github.com/cockroachdb/redact"
)

// H_c02: non-interference as constancy of the redacted output over all
// secrets of one signature class.  p = [kind, directive, n, lfpos]
// lfpos = -1: no line feed in the secret; otherwise the byte at lfpos is
// a line feed and no other byte is.
func H_c02(p []int) {
	kind, di, n, lfpos := p[0], p[1], p[2], p[3]
	d := directives[di]
	if addrLeak(kind, d) {
		return
	}
	bs := vBytes(n)
	for k := range bs {
		if k == lfpos {
			vAssume(bs[k] == '\n')
		} else {
			vAssume(bs[k] != '\n')
		}
	}
	if lfpos >= 100 {
		// secret templates: concrete markers / truncated sequences between
		// the symbolic (non-LF) bytes; the class fixes the template
		bs = c02Template(lfpos-100, bs)
	}
	i := 42
	skind := kind
	if strings.Contains(d, "*") {
		// the operand of a star width/precision is a public value
		skind = -1
	}
	switch skind {
	case vkInt, vkInt64Neg, vkMyInt, vkPubStruct, vkSliceInt, vkArrInt, vkMapStrInt, vkUintptr, vkUint64Big, vkSliceSafe, vkEnumStringer:
		i = vInt()
		vAssume(i >= 11)
		vAssume(i <= 9999)
		if strings.ContainsAny(d, "qUc") {
			vAssume(i < 0x100)
		}
	case vkUint8:
		b := vByte()
		vAssume(b >= 11)
		i = int(b)
	case vkRune:
		r := vRune()
		vAssume(validRune(r))
		vAssume(r >= 11)
		if strings.ContainsAny(d, "qU") {
			vAssume(r < 0x100)
		}
		i = int(r)
	case vkBool:
		i = int(vByte() & 1)
	}
	vSite(fmt.Sprintf("kind=%d dir=%q", kind, d))
	if len(p) > 4 && p[4] > 0 {
		// an unrelated earlier call on the same (recycled) printers
		c12History(p[4]-1, "h")
	}
	v := mkValue(kind, string(bs), i)
	r := catchRedact(func() redact.RedactableString { return redact.Sprintf(d, v, 3) })
	if r.panicked {
		return
	}
	out := []byte(r.out)
	vObserve("out", out)
	wf, _ := wfls(out)
	vAssert(wf, "C02/wf-needed-for-redaction")
	if !wf {
		return
	}
	vObserve("const:redacted", redactRef(out))
	vCover(n > 0, "symbolic-secret")
}

// c02Template interleaves the symbolic bytes b with concrete material.
func c02Template(t int, b []byte) []byte {
	at := func(k int) []byte {
		if k < len(b) {
			return b[k : k+1]
		}
		return nil
	}
	switch t {
	case 0:
		return cat(at(0), mE, at(1))
	case 1:
		return cat(mS, at(0), at(1))
	case 2:
		return cat(at(0), []byte{0xE2}, mE, at(1)) // truncated sequence, then a marker
	case 3:
		return cat([]byte{0xE2, 0x80}, at(0), mE, at(1))
	case 4:
		return cat(at(0), []byte{0xC3}, mS, at(1))
	case 5:
		return cat(at(0), []byte{0xF0, 0x9F}, mE, at(1), mS)
	}
	panic("c02Template")
}

const nC02Templates = 6

// H_c02m: two operands in one call, the first under Safe() or Unsafe():
// what the first leaves behind must not change how the second is classified.
// p = [kind1, wrap1 (0 none, 1 Safe, 2 Unsafe, 3-6 nested pairs), kind2, n]
func H_c02m(p []int) {
	k1, w1, k2, n := p[0], p[1], p[2], p[3]
	bs := vBytes(n)
	for k := range bs {
		vAssume(bs[k] != '\n')
	}
	vSite(fmt.Sprintf("two operands kinds=%d,%d wrap=%d", k1, k2, w1))
	// the first operand is public when it is under Safe(): concrete leaf
	var a interface{}
	switch w1 {
	case 1:
		a = redact.Safe(mkValue(k1, "pub", 7))
	case 2:
		a = redact.Unsafe(mkValue(k1, string(bs), 7))
	// nested wrappers: the outermost decides, and nothing is left behind
	case 3:
		a = redact.Safe(redact.Safe(mkValue(k1, "pub", 7)))
	case 4:
		a = redact.Safe(redact.Unsafe(mkValue(k1, "pub", 7)))
	case 5:
		a = redact.Unsafe(redact.Safe(mkValue(k1, string(bs), 7)))
	case 6:
		a = redact.Unsafe(redact.Unsafe(mkValue(k1, string(bs), 7)))
	default:
		a = mkValue(k1, string(bs), 7)
	}
	b := mkValue(k2, string(bs), 9)
	r := catchRedact(func() redact.RedactableString { return redact.Sprintf("%v; %v|%s", a, b, string(bs)) })
	if r.panicked {
		return
	}
	out := []byte(r.out)
	vObserve("out", out)
	wf, _ := wfls(out)
	vAssert(wf, "C02/wf-needed-for-redaction")
	if !wf {
		return
	}
	vObserve("const:redacted", redactRef(out))
}

func init() {
	Harnesses["H_c02"] = H_c02
	Harnesses["H_c02m"] = H_c02m
}
