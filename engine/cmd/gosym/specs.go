package main

// Obligation tables per property (DESIGN §6).

func escapeObligs(tier string, withSplit bool) []Oblig {
	var obs []Oblig
	maxN := 4
	if tier == "thorough" {
		maxN = 6
	}
	for shape := 0; shape < 9; shape++ {
		for mode := 0; mode <= 1; mode++ {
			for n := 0; n <= maxN; n++ {
				if shape != 0 && shape != 2 && shape != 5 && n > maxN-1 {
					continue
				}
				obs = append(obs, Oblig{Harness: "H_escape", Args: []int{shape, n, mode, -1}})
			}
		}
	}
	// template payloads: concrete markers / line feeds at chosen places, symbolic bytes around them
	for tpl := 1; tpl <= 15; tpl++ {
		for mode := 0; mode <= 1; mode++ {
			for _, shape := range []int{0, 2} {
				if !withSplit && tier != "thorough" && (shape != 0 || (mode == 1 && tpl > 8)) {
					continue // the C10 check runs the full template set
				}
				obs = append(obs, Oblig{Harness: "H_escape", Args: []int{shape, 0, mode, -1, tpl}})
			}
		}
	}
	if withSplit {
		// the split falls where the storage has to grow (capacity 64, the
		// unsafe side also holds the start marker)
		for mode := 0; mode <= 1; mode++ {
			for _, k := range []int{58, 59, 60} {
				for split := 1; split <= 2; split++ {
					obs = append(obs, Oblig{Harness: "H_escape", Args: []int{0, 3, mode, split, 0, k + 3*mode}})
				}
			}
		}
		sn := 4
		if tier == "thorough" {
			sn = 5
		}
		for mode := 0; mode <= 1; mode++ {
			for n := 1; n <= sn; n++ {
				for split := 0; split <= n; split++ {
					obs = append(obs, Oblig{Harness: "H_escape", Args: []int{0, n, mode, split}})
					if n <= 3 {
						obs = append(obs, Oblig{Harness: "H_escape", Args: []int{2, n, mode, split}})
					}
				}
			}
		}
	}
	return obs
}

func escbytesObligs(tier string) []Oblig {
	var obs []Oblig
	maxN := 4
	if tier == "thorough" {
		maxN = 6
	}
	for n := 0; n <= maxN; n++ {
		obs = append(obs, Oblig{Harness: "H_escbytes", Args: []int{n, 0}})
	}
	for tpl := 1; tpl <= 15; tpl++ {
		obs = append(obs, Oblig{Harness: "H_escbytes", Args: []int{0, tpl}})
	}
	return obs
}

func init() {
	register(&CheckSpec{
		ID:    "C10",
		Props: []string{"C10"},
		Obligs: func(tier string) []Oblig {
			obs := append(escapeObligs(tier, true), escbytesObligs(tier)...)
			maxK := 4
			if tier == "thorough" {
				maxK = 5
			}
			var rec func(cur []int, n int)
			rec = func(cur []int, n int) {
				obs = append(obs, Oblig{Harness: "H_c07", Args: append([]int{}, cur...)})
				if n == 0 {
					return
				}
				for k := 0; k < 5; k++ {
					rec(append(cur, k), n-1)
				}
			}
			rec(nil, maxK)
			return obs
		},
		Bounds: func(tier string) map[string]interface{} {
			n := 4
			if tier == "thorough" {
				n = 6
			}
			return map[string]interface{}{"payload_bytes_fully_symbolic": n, "prefix_fragment_shapes": 9, "modes": "unsafe(line splitting), safe-escaped", "split_points": "all, payload<=4 (5 thorough)"}
		},
		Goals:   []string{"marker-in-payload", "lf-first", "lf-last", "tail-added"},
		Assume:  []string{"raw-mode prefix is a well-formed, line-safe fragment of ASCII bytes and library markers (documented raw-mode use)"},
		Stubs:   []string{"none for the scanner; bytes.Equal/HasSuffix/utf8.DecodeLastRune interpreted from source"},
		Outside: []string{"payloads longer than the bound", "regexp engine internals (EscapeMarkers uses the regexp model)"},
	})
}

func init() {
	register(&CheckSpec{
		ID:          "CONF",
		Props:       []string{"CONF"},
		ValidateAll: true,
		Obligs: func(tier string) []Oblig {
			var obs []Oblig
			for k := 0; k < nFmtKinds; k++ {
				obs = append(obs, Oblig{Harness: "H_conf", Args: []int{k}})
			}
			for k := 100; k < 115; k++ {
				obs = append(obs, Oblig{Harness: "H_conf", Args: []int{k}})
			}
			return obs
		},
	})
}

// ---- history obligations (H_hist) ----

const nHistOps = 22

var coreOps = []int{0, 1, 2, 3, 4, 5, 8, 15, 16, 18} // SafeString UnsafeString SafeRune UnsafeRune SafeByte UnsafeByte Write PrintStr PrintfStr PrintRedactable
var strOps = []int{0, 1, 15, 17}

func isCoreOp(x int) bool {
	for _, c := range coreOps {
		if c == x {
			return true
		}
	}
	return false
}

func histObligs(tier string, panicViol bool) []Oblig {
	var obs []Oblig
	add := func(n int, ops ...int) {
		obs = append(obs, Oblig{Harness: "H_hist", Args: append([]int{n}, ops...), PanicViol: panicViol})
	}
	for op := 0; op < nHistOps; op++ {
		add(1, op)
		add(3, op)
	}
	// empty payloads (n = 0) and an empty payload between two others
	emptyOps := []int{0, 1, 6, 7, 8, 9, 15, 16, 17, 18}
	for _, a := range emptyOps {
		add(0, a)
		for _, b := range emptyOps {
			add(0, a, b)
		}
	}
	// a 63-byte write ending in a symbolic byte, then a 2-byte write that makes
	// the storage grow: a rune or marker split across the two writes
	for _, a := range []int{8, 1, 0, 9} {
		for _, b := range []int{8, 1, 0, 9} {
			if (a == 0) != (b == 0) {
				continue
			}
			// the buffer's first allocation has capacity 64: the unsafe side also
			// holds the 3-byte start marker, so its payload is 3 bytes shorter
			n1 := 1063
			if a != 0 {
				n1 = 1060
			}
			obs = append(obs, Oblig{Harness: "H_hist2", Args: []int{n1, a, 2, b}, PanicViol: panicViol})
		}
	}
	// an unsafe payload ending in a line feed (template ".sn"), then safe text that starts with a marker
	for _, a := range []int{1, 7, 8, 15} {
		for _, b := range []int{0, 6, 17} {
			obs = append(obs, Oblig{Harness: "H_hist2", Args: []int{111, a, 108, b}, PanicViol: panicViol})
			obs = append(obs, Oblig{Harness: "H_hist2", Args: []int{110, a, 104, b}, PanicViol: panicViol})
		}
	}
	// an empty payload first, then a non-empty write of either side
	for _, a := range emptyOps {
		for _, b := range []int{1, 0, 3, 5, 8, 15, 17} {
			obs = append(obs, Oblig{Harness: "H_hist2", Args: []int{0, a, 1, b}, PanicViol: panicViol})
		}
	}
	for _, a := range []int{1, 15, 16, 18, 0} {
		for _, c := range []int{0, 1, 3, 16} {
			obs = append(obs, Oblig{Harness: "H_hist2", Args: []int{1, a, 0, 1, c}, PanicViol: panicViol})
			obs = append(obs, Oblig{Harness: "H_hist2", Args: []int{1, a, 0, 15, c}, PanicViol: panicViol})
		}
	}
	// template payloads (marker / LF inside the first payload) followed by a byte, rune or string write
	tplA, tplT, tplB := []int{1, 8}, []int{103, 104, 110}, []int{5, 10, 3, 0}
	if tier == "thorough" {
		tplA, tplT, tplB = []int{1, 7, 8, 9, 15}, []int{101, 103, 104, 108, 110, 111}, []int{5, 10, 3, 11, 1, 0}
	}
	for _, a := range tplA {
		for _, t := range tplT {
			for _, b := range tplB {
				obs = append(obs, Oblig{Harness: "H_hist2", Args: []int{t, a, 1, b}, PanicViol: panicViol})
			}
		}
	}
	// a Printf whose last verb carries width/precision/flags, then numeric safe writes
	for _, sc := range [][]int{{19, 12}, {19, 13}, {19, 14}, {19, 0}, {12, 19}, {19, 19}} {
		obs = append(obs, Oblig{Harness: "H_hist2", Args: []int{1, sc[0], 1, sc[1]}, PanicViol: panicViol})
	}
	// a longer first payload, then an empty unsafe write, then a mode switch
	for _, a := range []int{1, 15} {
		obs = append(obs, Oblig{Harness: "H_hist2", Args: []int{3, a, 0, 1, 1, 0}, PanicViol: panicViol})
	}
	if tier == "thorough" {
		for a := 0; a < nHistOps; a++ {
			for b := 0; b < nHistOps; b++ {
				if (a >= 19 || b >= 19) && !(isCoreOp(a) || isCoreOp(b)) {
					continue // the three late additions are paired with the core operations only
				}
				add(1, a, b)
			}
		}
		for _, a := range coreOps {
			for _, b := range coreOps {
				add(2, a, b)
				for _, c := range []int{0, 1, 3, 16} {
					add(1, a, b, c)
				}
			}
		}
	} else {
		for _, a := range coreOps {
			for _, b := range coreOps {
				add(1, a, b)
			}
		}
		for _, a := range strOps {
			for _, b := range strOps {
				add(2, a, b)
			}
		}
		for _, c := range []int{0, 3} {
			for _, a := range []int{1, 16} {
				for _, b := range []int{0, 1, 18} {
					add(1, a, b, c)
				}
			}
		}
		add(1, 4, 4, 4)
		add(1, 4, 4, 4, 1)
		add(1, 5, 5, 5)
	}
	return obs
}

// per-call lemmas from canonical states (H_step)
func stepObligs(tier string, panicViol bool) []Oblig {
	var obs []Oblig
	shapes, modes, nqs, ops := []int{2, 5}, []int{0, 1}, []int{1}, coreOps
	if tier == "thorough" {
		shapes, modes, nqs = []int{0, 2, 3, 5, 6, 8}, []int{0, 1, 2}, []int{1, 2}
		ops = nil
		for op := 0; op < nHistOps; op++ {
			ops = append(ops, op)
		}
	}
	for _, sh := range shapes {
		for _, m := range modes {
			for _, nq := range nqs {
				for _, op := range ops {
					obs = append(obs, Oblig{Harness: "H_step", Args: []int{sh, m, nq, op, 1}, PanicViol: panicViol})
				}
			}
		}
	}
	return obs
}

func histBounds(tier string) map[string]interface{} {
	if tier == "thorough" {
		return map[string]interface{}{"per_call_lemmas": "one arbitrary call from every canonical state Can(P,m,Q): 6 fragment shapes x 3 modes x 1-2 pending symbolic bytes x 19 ops", "history_length": "1..3 calls", "scripts": "all 22 ops (len 1), all pairs of the first 19 ops and the late 3 with the 10 core ops (payload 1 B), 100 core pairs (payload 2 B), 400 core triples (payload 1 B), template / long-prefix / empty-payload scripts", "payload": "fully symbolic bytes (<=3), full 32-bit runes, full bytes, ints 0..99"}
	}
	return map[string]interface{}{"per_call_lemmas": "one arbitrary call from canonical states Can(P,m,Q): 2 fragment shapes x 2 modes x 1 pending symbolic byte x 10 ops", "history_length": "1..3 calls", "scripts": "all 22 ops (payload 1 and 3 B), 100 core pairs (payload 1 B), 16 string-op pairs (payload 2 B), 12 triples, template / long-prefix / empty-payload scripts", "payload": "fully symbolic bytes (<=3), full 32-bit runes, full bytes, ints 0..99"}
}

func init() {
	register(&CheckSpec{
		ID:    "C09",
		Props: []string{"C09"},
		Obligs: func(tier string) []Oblig {
			obs := append(histObligs(tier, false), stepObligs(tier, false)...)
			for _, pre := range []int{12, 13, 4, 5} {
				for _, sc := range [][]int{{1, 0}, {0, 1}, {15, 0}, {16}, {3, 0}} {
					obs = append(obs, Oblig{Harness: "H_histp", Args: append([]int{pre, 1}, sc...), PoolMode: 1})
				}
			}
			return obs
		},
		Bounds:  histBounds,
		Goals:   []string{"valid-payloads", "step-valid"},
		Assume:  []string{"the two equalities are asserted only for valid-UTF-8 string payloads, valid runes and ASCII single bytes (the property's quantifier); well-formedness and line safety for all payloads"},
		Stubs:   []string{"sync.Pool: LIFO model", "strconv.AppendFloat on the concrete 1.5 interpreted from source"},
		Outside: []string{"histories longer than 3 calls", "payloads longer than 3 bytes", "paths that end in a panic (see C11)"},
	})
}

func init() {
	register(&CheckSpec{
		ID:    "C11",
		Props: []string{"C11"},
		Obligs: func(tier string) []Oblig {
			var obs []Oblig
			for _, o := range histObligs(tier, true) {
				if len(o.Args) <= 2 || tier == "thorough" || o.Harness == "H_hist2" || o.Args[0] == 0 || (len(o.Args) == 3 && o.Args[0] == 1 && lightOp(o.Args[1]) && lightOp(o.Args[2])) {
					obs = append(obs, o)
				}
			}
			obs = append(obs, joinObligs(true)...)
			obs = append(obs, c11pObligs(tier)...)
			// zero padding beyond the 68-byte scratch buffers, with sign / prefix flags
			for _, k := range []int{3, 5} {
				for mask := 16; mask < 32; mask++ {
					for _, w := range []int{5, 7} {
						for _, v := range []int{0, 1, 3} {
							obs = append(obs, Oblig{Harness: "H_c04w", Args: []int{k, mask, w, 0, v, 0}, PanicViol: true})
						}
					}
				}
			}
			for _, o := range fmtbytesObligs(tier) {
				o.PanicViol = true
				obs = append(obs, o)
			}
			for _, o := range valsObligs(tier) {
				o.PanicViol = true
				if tier == "thorough" || o.Args[2] == 1 {
					obs = append(obs, o)
				}
			}
			// every value kind under every directive (1 symbolic leaf byte)
			all := append([]int{}, redactKinds...)
			for k := 0; k < nFmtKinds; k++ {
				all = append(all, k)
			}
			for _, k := range all {
				for d := 0; d < nDirectives; d++ {
					obs = append(obs, Oblig{Harness: "H_vals", Args: []int{k, d, 1}, PanicViol: true})
				}
			}
			return obs
		},
		Bounds:  histBounds,
		Assume:  []string{"Grow(n<0) and ErrTooLarge are documented panics outside the claim"},
		Stubs:   []string{"sync.Pool: LIFO model"},
		Outside: []string{"histories longer than 3 calls"},
	})
}

// ---- printer-level tables ----

const nFmtKinds = 61 // fmt-compatible value kinds of h_values.go
const nDirectives = 54

// kinds whose rendering depends on the string leaf
var strKinds = []int{0, 1, 2, 12, 13, 14, 15, 16, 18, 19, 21, 25, 26, 27, 28, 31, 33, 34, 35, 36, 37, 38, 39, 41, 42, 43, 44, 47, 51, 52, 54, 56, 57}
var deepStrKinds = []int{0, 1, 14, 25, 27, 31, 35}
var deepDirs = []int{0, 2, 3, 4, 5, 16, 17, 19, 20, 21, 25, 28}

func c04Obligs(tier string) []Oblig {
	var obs []Oblig
	isStr := map[int]bool{}
	for _, k := range strKinds {
		isStr[k] = true
	}
	for k := 0; k < nFmtKinds; k++ {
		for d := 0; d < nDirectives; d++ {
			n := 0
			if isStr[k] {
				n = 1
			}
			obs = append(obs, Oblig{Harness: "H_c04", Args: []int{k, d, n}})
		}
	}
	dn := 2
	if tier == "thorough" {
		dn = 3
	}
	for _, k := range deepStrKinds {
		for _, d := range deepDirs {
			obs = append(obs, Oblig{Harness: "H_c04", Args: []int{k, d, dn}})
		}
	}
	if tier == "thorough" {
		for _, k := range strKinds {
			for d := 0; d < nDirectives; d++ {
				obs = append(obs, Oblig{Harness: "H_c04", Args: []int{k, d, 2}})
			}
		}
	}
	for _, d := range []int{0, 3, 16} {
		obs = append(obs, Oblig{Harness: "H_c04", Args: []int{0, d, 3}})
	}
	mk := []int{0, 3, 10, 14, 17, 22, 27, 31, 34, 35, 36, 38, 46}
	for _, k1 := range mk {
		for _, k2 := range mk {
			for f := 0; f < 6; f++ {
				if tier != "thorough" && f >= 2 && (k1 > 14 || k2 > 14) && k1 != 10 && k2 != 10 {
					continue
				}
				obs = append(obs, Oblig{Harness: "H_c04m", Args: []int{k1, k2, f, 1}})
			}
		}
	}
	for _, k1 := range []int{0, 3, 14, 27, 31, 10, 1, 36, 12, 13, 11} {
		for _, k2 := range []int{0, 3, 10, 27, 19, 12} {
			obs = append(obs, Oblig{Harness: "H_c04p", Args: []int{k1, k2, 2}})
		}
	}
	obs = append(obs, c04wObligs(tier)...)
	return obs
}

// c04wObligs: flag subsets x boundary widths x boundary precisions x verbs.
func c04wObligs(tier string) []Oblig {
	var obs []Oblig
	type kv struct {
		kind  int
		verbs []int // indexes into c04wVerbs "dxobvcqUfegsXEGOt"
	}
	kvs := []kv{{3, []int{0, 1}}, {5, []int{0}}, {7, []int{8, 4}}, {0, []int{11, 6}}, {20, []int{4}}}
	widths := []int{0, 3, 5, 7}
	precs := []int{0, 2, 6}
	if tier == "thorough" {
		kvs = []kv{{3, []int{0, 1, 2, 3, 4, 5, 6, 7, 12, 15}}, {5, []int{0, 1, 3, 4, 15}}, {49, []int{0, 1, 4}}, {4, []int{0, 1, 5}}, {9, []int{0, 5, 6, 4}}, {7, []int{8, 9, 10, 4, 13}}, {50, []int{8, 4}}, {8, []int{8, 4}},
			{0, []int{11, 6, 1, 4, 0}}, {1, []int{11, 1, 4}}, {20, []int{0, 1, 4}}, {14, []int{4, 0}}, {24, []int{4}}, {6, []int{16, 4}}, {10, []int{4, 0}}, {27, []int{4, 11}}, {31, []int{4, 11}}, {45, []int{0, 4}}}
		widths = []int{0, 1, 3, 4, 5, 7, 8}
		precs = []int{0, 1, 2, 4, 5, 6}
	}
	for _, x := range kvs {
		for _, v := range x.verbs {
			for mask := 0; mask < 32; mask++ {
				for _, w := range widths {
					for _, pr := range precs {
						n := 0
						if x.kind == 0 || x.kind == 1 || x.kind == 27 || x.kind == 31 || x.kind == 14 {
							n = 1
						}
						obs = append(obs, Oblig{Harness: "H_c04w", Args: []int{x.kind, mask, w, pr, v, n}})
					}
				}
			}
		}
	}
	return obs
}

func init() {
	register(&CheckSpec{
		ID:     "C04",
		Props:  []string{"C04"},
		Obligs: c04Obligs,
		Bounds: func(tier string) map[string]interface{} {
			return map[string]interface{}{"value_kinds": nFmtKinds, "directives": nDirectives, "string_leaf_bytes": "1 for the full kind x directive table, 2 (3 thorough) for 7 kinds x 12 directives", "int_leaves": "0..9999 symbolic", "runes": "all valid runes", "sprint_pairs": 66, "boundary_table": "H_c04w: all 32 flag subsets x widths {-,67,69,80} (thorough {-,3,64,67,68,69,70,80,1000}) x precisions {-,2,70} (thorough {-,0,2,66,67,68,70,1000}) x 8 (80 thorough) kind/verb pairs"}
		},
		Goals:   []string{"marker-in-leaf"},
		Assume:  []string{"string leaves are valid UTF-8 (the property's quantifier)", "operands that would print a machine address are skipped"},
		Stubs:   []string{"reflect: emulated over go/types (validated by the conformance set)", "sync.Pool: LIFO model", "stdlib fmt and strconv: interpreted from their Go 1.23.5 source by the same engine"},
		Outside: []string{"floating-point digit generation is concrete", "longer leaves", "formats outside the directive table"},
	})
}

var c02RedactKinds = []int{103, 104, 105, 106, 110, 111, 112, 113, 114, 115, 119, 121, 122, 123}

func hasPrecision(d int) bool {
	switch d {
	case 19, 20, 27, 39, 50, 51, 52, 53:
		return true
	}
	return false
}

// %v %+v %s and the padded forms %-8q| %8s|-like entries of the directive table
var c02TemplateDirs = []int{0, 1, 3, 28, 17, 18}

func c02Obligs(tier string) []Oblig {
	var obs []Oblig
	isStr := map[int]bool{}
	for _, k := range strKinds {
		isStr[k] = true
	}
	kinds := []int{}
	for k := 0; k < nFmtKinds; k++ {
		kinds = append(kinds, k)
	}
	for _, k := range c02RedactKinds {
		kinds = append(kinds, k)
		isStr[k] = true
	}
	for _, k := range kinds {
		for d := 0; d < nDirectives; d++ {
			if !isStr[k] {
				obs = append(obs, Oblig{Harness: "H_c02", Args: []int{k, d, 0, -1}})
				continue
			}
			obs = append(obs, Oblig{Harness: "H_c02", Args: []int{k, d, 1, -1}})
			if !hasPrecision(d) {
				obs = append(obs, Oblig{Harness: "H_c02", Args: []int{k, d, 1, 0}})
			}
		}
	}
	dn := 2
	if tier == "thorough" {
		dn = 3
	}
	deepK := []int{0, 1, 25, 27, 31, 103, 106}
	if tier == "thorough" {
		deepK = append(append([]int{}, deepStrKinds...), 103, 106, 110)
	}
	for _, k := range deepK {
		for _, d := range deepDirs {
			for lf := -1; lf < dn; lf++ {
				if lf >= 0 && hasPrecision(d) {
					continue
				}
				obs = append(obs, Oblig{Harness: "H_c02", Args: []int{k, d, dn, lf}})
			}
		}
	}
	// secrets with concrete markers / truncated sequences around the symbolic bytes
	for _, k := range []int{0, 1, 12, 14, 19, 24, 25, 27, 31, 103} {
		for _, d := range c02TemplateDirs {
			for t := 0; t < 6; t++ {
				obs = append(obs, Oblig{Harness: "H_c02", Args: []int{k, d, 2, 100 + t}})
			}
		}
	}
	// two operands in one call, the first under a wrapper
	for _, k1 := range []int{106, 114, 0, 14} {
		for w1 := 0; w1 < 7; w1++ {
			for _, k2 := range []int{114, 106, 0} {
				obs = append(obs, Oblig{Harness: "H_c02m", Args: []int{k1, w1, k2, 1}})
			}
		}
	}
	// an unrelated earlier call first (recycled printers, adversarial pool)
	pres := []int{13, 5, 20, 17, 18}
	pk := []int{0, 14, 103, 110}
	if tier == "thorough" {
		pres = []int{13, 14, 5, 6, 8, 17, 18, 20, 21, 22, 23}
		pk = []int{0, 3, 14, 27, 103, 106, 110}
	}
	for _, pre := range pres {
		for _, k := range pk {
			for _, d := range []int{0, 16} {
				obs = append(obs, Oblig{Harness: "H_c02", Args: []int{k, d, 1, -1, pre}, PoolMode: 1})
			}
		}
	}
	if tier == "thorough" {
		for _, k := range kinds {
			if !isStr[k] {
				continue
			}
			for d := 0; d < nDirectives; d++ {
				for lf := -1; lf < 2; lf++ {
					if lf >= 0 && hasPrecision(d) {
						continue
					}
					obs = append(obs, Oblig{Harness: "H_c02", Args: []int{k, d, 2, lf}})
				}
			}
		}
	}
	return obs
}

func init() {
	register(&CheckSpec{
		ID:     "C02",
		Props:  []string{"C02"},
		Obligs: c02Obligs,
		Bounds: func(tier string) map[string]interface{} {
			return map[string]interface{}{"value_kinds": nFmtKinds + len(c02RedactKinds), "directives": nDirectives, "secret_string_bytes": "1 for the full table, 2 (3 thorough) for 10 kinds x 12 directives; thorough also 2 for the full table", "line_feed_classes": "none, or exactly one LF at each position (no LF under a precision)", "secret_ints": "11..9999 symbolic (verbs c/q/U: < 256)", "secret_runes": "all valid runes >= 11"}
		},
		Goals:   []string{"symbolic-secret"},
		Assume:  []string{"signature class of a secret: length, positions of line feeds; ints exclude 0..10 (zero-ness under %.0d and LF under %c are separate classes, not explored)", "redaction is computed with the byte-level reference redactRef (C07 relates it to Redact())"},
		Stubs:   []string{"reflect emulated", "sync.Pool LIFO"},
		Outside: []string{"float digits concrete", "decimal ints above 9999", "formats outside the directive table", "paths that end in a panic"},
	})
}

var redactKinds = []int{100, 101, 102, 103, 104, 105, 106, 107, 108, 109, 110, 111, 112, 113, 114, 115, 116, 117, 118, 119, 121, 122, 123}

func valsObligs(tier string) []Oblig {
	var obs []Oblig
	dn := 2
	if tier == "thorough" {
		dn = 3
	}
	kinds := append(append([]int{}, deepStrKinds...), 36, 37, 38, 39, 19, 21, 26, 44)
	kinds = append(kinds, redactKinds...)
	deep := map[int]bool{0: true, 27: true, 36: true, 102: true, 103: true, 104: true, 106: true, 110: true}
	for _, k := range kinds {
		for _, d := range deepDirs {
			if tier == "thorough" || deep[k] {
				obs = append(obs, Oblig{Harness: "H_vals", Args: []int{k, d, dn}})
			} else {
				obs = append(obs, Oblig{Harness: "H_vals", Args: []int{k, d, 1}})
			}
		}
	}
	if tier == "thorough" {
		all := append([]int{}, redactKinds...)
		for k := 0; k < nFmtKinds; k++ {
			all = append(all, k)
		}
		for _, k := range all {
			for d := 0; d < nDirectives; d++ {
				obs = append(obs, Oblig{Harness: "H_vals", Args: []int{k, d, 2}})
			}
		}
	}
	// integer leaves whose value is a marker code point or the line feed,
	// under the verbs that print the code point itself (and %v / %d)
	for _, k := range []int{3, 11, 14, 20, 23, 24, 9, 4, 45, 101, 108, 109, 118, 110} {
		for _, d := range []int{0, 7, 4, 8, 9, 25, 26, 28, 31, 33} {
			for leaf := 1; leaf <= 3; leaf++ {
				obs = append(obs, Oblig{Harness: "H_vals", Args: []int{k, d, 0, leaf}})
			}
		}
	}
	return obs
}

func fmtbytesObligs(tier string) []Oblig {
	obs := []Oblig{
		{Harness: "H_fmtbytes", Args: []int{1, 0}}, {Harness: "H_fmtbytes", Args: []int{2, 0}}, {Harness: "H_fmtbytes", Args: []int{3, 0}},
		{Harness: "H_fmtbytes", Args: []int{2, 1}}, {Harness: "H_fmtbytes", Args: []int{3, 1}},
		{Harness: "H_fmtbytes", Args: []int{2, 2}},
		{Harness: "H_fmtbytes", Args: []int{1, 3}}, {Harness: "H_fmtbytes", Args: []int{2, 3}}, {Harness: "H_fmtbytes", Args: []int{3, 3}},
		{Harness: "H_fmtbytes", Args: []int{1, 4}}, {Harness: "H_fmtbytes", Args: []int{2, 4}},
		{Harness: "H_fmtbytes", Args: []int{1, 5}}, {Harness: "H_fmtbytes", Args: []int{2, 5}},
		{Harness: "H_fmtbytes", Args: []int{1, 6}}, {Harness: "H_fmtbytes", Args: []int{2, 6}},
	}
	if tier == "thorough" {
		obs = append(obs, Oblig{Harness: "H_fmtbytes", Args: []int{4, 0}}, Oblig{Harness: "H_fmtbytes", Args: []int{4, 1}}, Oblig{Harness: "H_fmtbytes", Args: []int{3, 2}})
	}
	return obs
}

func wfObligs(tier string, panicViol bool) []Oblig {
	obs := fmtbytesObligs(tier)
	// an object reused after Reset / Take* (with an envelope open, a raw or safe mode active ...)
	for _, variant := range []int{1, 3} {
		for which := 0; which < 3; which++ {
			for _, a := range []int{1, 0, 3, 8, 15, 18} {
				for _, b := range []int{1, 0, 16} {
					obs = append(obs, Oblig{Harness: "H_c13", Args: []int{variant, which, 1, 1, a, b}, PanicViol: panicViol})
				}
			}
		}
	}
	obs = append(obs, escapeObligs(tier, false)...)
	for _, o := range histObligs(tier, panicViol) {
		if tier == "thorough" || len(o.Args) <= 2 || o.Harness == "H_hist2" || o.Args[0] == 0 {
			obs = append(obs, o)
		} else if len(o.Args) == 3 && o.Args[0] == 1 && lightOp(o.Args[1]) && lightOp(o.Args[2]) {
			obs = append(obs, o)
		}
	}
	obs = append(obs, valsObligs(tier)...)
	for _, pr := range [][]int{{1, 1}, {1, 15}, {15, 1}, {8, 1}, {1, 0}, {0, 1}} {
		obs = append(obs, Oblig{Harness: "H_hist", Args: []int{2, pr[0], pr[1]}, PanicViol: panicViol})
	}
	obs = append(obs, Oblig{Harness: "H_hist", Args: []int{1, 4, 4, 4}, PanicViol: panicViol}, Oblig{Harness: "H_hist", Args: []int{1, 4, 4, 4, 1}, PanicViol: panicViol})
	obs = append(obs, joinObligs(panicViol)...)
	for _, o := range escbytesObligs(tier) {
		if tier == "thorough" || o.Args[0] <= 3 {
			obs = append(obs, o)
		}
	}
	return obs
}

func lightOp(op int) bool {
	switch op {
	case 0, 1, 3, 16, 18:
		return true
	}
	return false
}

func wfBounds(tier string) map[string]interface{} {
	b := histBounds(tier)
	b["format_string"] = "3 (4 thorough) symbolic bytes over a 27-symbol alphabet (all directive syntax, marker bytes, LF)"
	b["escape_payload_bytes"] = map[string]int{"quick": 4, "thorough": 6}[tier]
	b["value_kinds_x_directives"] = "27 kinds x 12 directives, 2 (3 thorough) arbitrary leaf bytes; thorough: all 65 kinds x 50 directives with 2 bytes"
	return b
}

func init() {
	register(&CheckSpec{
		ID:      "C01",
		Props:   []string{"C01"},
		Obligs:  func(tier string) []Oblig { return wfObligs(tier, false) },
		Bounds:  wfBounds,
		Goals:   []string{"envelope-produced", "marker-in-payload", "symbolic-leaf"},
		Assume:  []string{"raw-mode writes are well-formed fragments (documented use)"},
		Stubs:   []string{"reflect emulated", "sync.Pool LIFO"},
		Outside: []string{"longer payloads, formats and histories", "float digits concrete", "paths that end in a panic (C11)"},
	})
	register(&CheckSpec{
		ID:    "C03",
		Props: []string{"C03"},
		Obligs: func(tier string) []Oblig {
			var obs []Oblig
			for _, o := range wfObligs(tier, false) {
				if tier != "thorough" && o.Harness == "H_fmtbytes" && o.Args[0] >= 3 && o.Args[1] == 0 {
					continue // a line feed in the format is safe text; the 3-byte format space is C01's
				}
				obs = append(obs, o)
			}
			return obs
		},
		Bounds:  wfBounds,
		Goals:   []string{"lf-first", "lf-last", "symbolic-leaf"},
		Assume:  []string{"raw-mode writes are well-formed, line-safe fragments (documented use)"},
		Stubs:   []string{"reflect emulated", "sync.Pool LIFO"},
		Outside: []string{"longer payloads, formats and histories", "paths that end in a panic (C11)"},
	})
}

const accStringIdx = 2

func c13Obligs(tier string) []Oblig {
	var obs []Oblig
	ops := []int{0, 1, 3, 16}
	if tier == "thorough" {
		ops = []int{0, 1, 2, 3, 4, 5, 8, 15, 16, 18}
	}
	for _, variant := range []int{0, 2} {
		for acc := 0; acc < 6; acc++ {
			for _, a := range ops {
				for _, b := range ops {
					obs = append(obs, Oblig{Harness: "H_c13", Args: []int{variant, acc, 1, 1, a, b}})
					if tier == "thorough" {
						obs = append(obs, Oblig{Harness: "H_c13", Args: []int{variant, acc, 2, 1, a, b}})
					}
				}
			}
			// accessor between two 2-byte string writes, and in a 3-op script
			for _, a := range []int{0, 1} {
				for _, b := range []int{0, 1} {
					if tier == "thorough" || (acc == 3 && a != b) {
						obs = append(obs, Oblig{Harness: "H_c13", Args: []int{variant, acc, 1, 2, a, b}})
					}
					if tier == "thorough" || acc == 0 || acc == 3 {
						obs = append(obs, Oblig{Harness: "H_c13", Args: []int{variant, acc, 2, 1, a, b, 1}})
					}
				}
			}
		}
	}
	// raw bytes, a mode switch, nothing written since
	for which := 0; which < 3; which++ {
		for n := 1; n <= 3; n++ {
			obs = append(obs, Oblig{Harness: "H_c13", Args: []int{4, which, 0, n}})
		}
	}
	// large buffers: 200 bytes of safe text, then pending unsafe payloads around the accessor
	for _, variant := range []int{0, 2} {
		for acc := 0; acc < 6; acc++ {
			for _, b := range []int{1, 0} {
				obs = append(obs, Oblig{Harness: "H_c13", Args: []int{variant, acc, 2, 1130, 0, 1, b}})
			}
		}
	}
	for _, variant := range []int{1, 3} {
		for which := 0; which < 3; which++ {
			// content still empty when Reset/Take is called (empty payloads in each mode)
			for _, a := range []int{0, 1, 6, 18} {
				obs = append(obs, Oblig{Harness: "H_c13", Args: []int{variant, which, 1, 0, a, 1}})
				obs = append(obs, Oblig{Harness: "H_c13", Args: []int{variant, which, 2, 0, a, 0, 1}})
			}
			for _, a := range ops {
				for _, b := range ops {
					obs = append(obs, Oblig{Harness: "H_c13", Args: []int{variant, which, 1, 1, a, b}})
				}
				obs = append(obs, Oblig{Harness: "H_c13", Args: []int{variant, which, 2, 1, 16, a, 1}})
				obs = append(obs, Oblig{Harness: "H_c13", Args: []int{variant, which, 1, 2, a, 1}})
			}
		}
	}
	return obs
}

func init() {
	register(&CheckSpec{
		ID:     "C13",
		Props:  []string{"C13"},
		Obligs: c13Obligs,
		Bounds: func(tier string) map[string]interface{} {
			return map[string]interface{}{"scripts": "2-3 SafeWriter calls around the accessor / Reset / Take, ops from 5 (10 thorough) kinds", "payload": "1-2 fully symbolic bytes, full 32-bit runes", "objects": "StringBuilder and ManualBuffer", "accessors": "Len Cap String RedactableString RedactableBytes GetMode; Reset TakeRedactableString TakeRedactableBytes"}
		},
		Goals:   []string{"ran"},
		Assume:  []string{"internal fields are not compared, only results of the public API"},
		Stubs:   []string{"sync.Pool LIFO (Print/Printf ops)", "slice capacity growth of append follows the interpreter's []value growth, not the runtime's []byte growth (capacities set by explicit make are exact)"},
		Outside: []string{"longer histories", "RedactableBytes aliasing (by design)"},
	})
}

// ENVCONF: standard-library facilities (sync, sync/atomic, sort, bytes,
// strings, unicode, utf8, bytes.Buffer, strings.Builder, the string-view
// cast) run by the engine on symbolic inputs and replayed natively: every
// path's observation must agree.
func init() {
	register(&CheckSpec{
		ID:          "ENVCONF",
		Props:       []string{"ENVCONF"},
		ValidateAll: true,
		Obligs: func(tier string) []Oblig {
			var obs []Oblig
			for _, c := range []int{0, 1, 2, 3, 4, 5, 6, 7, 10, 12} {
				obs = append(obs, Oblig{Harness: "H_env", Args: []int{c, 2}})
			}
			for k := 0; k < 24; k++ {
				if k == 20 {
					continue // strings.NewReplacer: generic machinery with a lazy sync.Once build; not needed
				}
				obs = append(obs, Oblig{Harness: "H_env", Args: []int{8, 2, k}})
			}
			for k := 0; k < 20; k++ {
				obs = append(obs, Oblig{Harness: "H_env", Args: []int{9, 2, k}})
			}
			return obs
		},
	})
}

func init() {
	register(&CheckSpec{
		ID:          "RECONF",
		Props:       []string{"RECONF"},
		ValidateAll: true,
		Obligs: func(tier string) []Oblig {
			var obs []Oblig
			var rec func(cur []int, n int)
			rec = func(cur []int, n int) {
				obs = append(obs, Oblig{Harness: "H_reconf", Args: append([]int{}, cur...)})
				if n == 0 {
					return
				}
				for k := 0; k < 8; k++ {
					rec(append(cur, k), n-1)
				}
			}
			rec(nil, 4)
			return obs
		},
	})
	register(&CheckSpec{
		ID:    "C07",
		Props: []string{"C07"},
		Obligs: func(tier string) []Oblig {
			var obs []Oblig
			maxK := 4
			if tier == "thorough" {
				maxK = 6
			}
			var rec func(cur []int, n int)
			rec = func(cur []int, n int) {
				obs = append(obs, Oblig{Harness: "H_c07", Args: append([]int{}, cur...)})
				if n == 0 {
					return
				}
				for k := 0; k < 5; k++ {
					rec(append(cur, k), n-1)
				}
			}
			rec(nil, maxK)
			return obs
		},
		Bounds: func(tier string) map[string]interface{} {
			k := 4
			if tier == "thorough" {
				k = 6
			}
			return map[string]interface{}{"segments": k, "segment_alphabet": "start marker, end marker, cross, LF, one fully symbolic byte", "shapes": "all 5^k sequences for every k up to the bound"}
		},
		Goals:   []string{"well-formed-input", "ill-formed-input"},
		Assume:  []string{"Go's regexp engine is modelled: leftmost-first backtracking over the syntax.Prog compiled from the pattern strings found in /repo, inside a transcription of regexp.replaceAll; the model is diffed against the host engine on all strings of <=4 symbols over an 8-symbol alphabet at setup"},
		Stubs:   []string{"regexp: modelled (see assumptions)"},
		Outside: []string{"the regexp engine's own implementation", "longer strings"},
	})
}

// ---- C08, C11 (join, user panics), C14, C15, C16, C17, C06, C05, C12 ----

var c08Dirs = []int{0, 1, 2, 3, 4, 5, 6, 7, 8, 9, 10, 11, 12, 14, 15, 16, 17, 18, 19, 20, 21, 22, 24, 25, 26, 27, 28, 29, 30, 31, 34, 35, 36, 38, 39, 40, 41, 48, 50, 51, 52, 53}

func c08Obligs(tier string) []Oblig {
	var obs []Oblig
	shapes := []int{2, 3, 8}
	if tier == "thorough" {
		shapes = []int{0, 1, 2, 3, 4, 5, 6, 7, 8}
	}
	for _, sh := range shapes {
		for _, d := range c08Dirs {
			for ck := 0; ck < 15; ck++ {
				if tier != "thorough" && sh != 3 && ck > 1 && d > 8 {
					continue
				}
				obs = append(obs, Oblig{Harness: "H_c08", Args: []int{sh, d, ck}})
			}
		}
	}
	for _, pre := range dirtyPreludes {
		for _, ck := range []int{0, 1, 9} {
			for _, d := range []int{0, 3} {
				obs = append(obs, Oblig{Harness: "H_c08", Args: []int{3, d, ck, pre}, PoolMode: 1})
			}
		}
	}
	for v := 0; v < 14; v++ {
		for _, s1 := range []int{2, 3, 4, 5, 8} {
			for _, s2 := range []int{1, 2, 6} {
				obs = append(obs, Oblig{Harness: "H_c08j", Args: []int{s1, s2, v}})
			}
		}
	}
	return obs
}

func joinObligs(panicViol bool) []Oblig {
	var obs []Oblig
	for k := 0; k < 12; k++ {
		obs = append(obs, Oblig{Harness: "H_join", Args: []int{k, 2}, PanicViol: panicViol})
	}
	return obs
}

func c11pObligs(tier string) []Oblig {
	var obs []Oblig
	n := 1
	if tier == "thorough" {
		n = 2
	}
	for k := 0; k < 14; k++ {
		for d := 0; d < 9; d++ {
			if k == 13 || k == 4 {
				// the later call may be served any printer freed so far (the real
				// sync.Pool is not LIFO)
				obs = append(obs, Oblig{Harness: "H_c11p", Args: []int{k, d, n}, PanicViol: true, PoolMode: 1})
				continue
			}
			obs = append(obs, Oblig{Harness: "H_c11p", Args: []int{k, d, n}, PanicViol: true})
		}
	}
	return obs
}

func c14Obligs(tier string) []Oblig {
	var obs []Oblig
	for w := 0; w < 6; w++ {
		for p := 0; p < 4; p++ {
			for vm := 0; vm < 4; vm++ {
				if vm > 0 && (w > 2 || p > 1) && tier != "thorough" {
					continue
				}
				obs = append(obs, Oblig{Harness: "H_c14", Args: []int{w, p, vm}})
			}
		}
	}
	for w := 0; w < 3; w++ {
		for p := 0; p < 3; p++ {
			for pre := 1; pre <= 3; pre++ {
				obs = append(obs, Oblig{Harness: "H_c14", Args: []int{w, p, 0, pre}})
				// the same with concrete flags and verbs (memoisation keyed on the directive)
				for _, mask := range []int{0, 1, 4, 18} {
					for _, verb := range []int{'f', 'x', 'v', 'q'} {
						obs = append(obs, Oblig{Harness: "H_c14", Args: []int{w, p, 0, pre, mask + 1, verb}})
					}
				}
			}
		}
	}
	ops := []int{0, 1, 2, 3, 4, 5, 6, 7, 11, 12, 13, 14, 20 + 41, 20 + 42}
	// + values with formatting methods: Stringer, nil-receiver Stringers,
	// error, nil error pointer, GoStringer, Formatter, panicking methods
	for _, vk := range []int{27, 28, 29, 30, 31, 32, 34, 35, 36, 37, 38, 39} {
		ops = append(ops, 20+vk)
	}
	for _, k := range ops {
		for _, w := range []int{0, 3} {
			for _, p := range []int{0, 2} {
				n := 1
				if k < 20 && k != 0 && k != 4 && k != 5 && k != 9 {
					n = 0
				}
				obs = append(obs, Oblig{Harness: "H_c14w", Args: []int{w, p, k, n}})
			}
		}
	}
	if tier == "thorough" {
		tk := []int{0, 1, 2, 3, 4, 5, 6, 7, 8, 9, 10, 11, 12, 13, 14}
		for _, vk := range []int{10, 14, 17, 19, 21, 22, 24, 26, 27, 28, 29, 30, 31, 32, 33, 34, 35, 36, 37, 38, 39, 40, 41, 42, 43, 44, 52, 59, 60} {
			tk = append(tk, 20+vk)
		}
		for _, k := range tk {
			for w := 0; w < 6; w++ {
				for p := 0; p < 4; p++ {
					if k >= 20 && !((w == 0 || w == 3) && (p == 0 || p == 2)) {
						continue
					}
					obs = append(obs, Oblig{Harness: "H_c14w", Args: []int{w, p, k, 1}})
				}
			}
		}
	}
	return obs
}

func c15Obligs(tier string) []Oblig {
	var obs []Oblig
	add := func(toks []int, ops []int) {
		args := append([]int{1, len(toks)}, toks...)
		args = append(args, ops...)
		obs = append(obs, Oblig{Harness: "H_c15", Args: args})
	}
	opKinds := []int{0, 1, 2, 3, 4, 5, 6, 7, 8, 9, 10}
	wTok := []int{0, 6, 7, 8, 10}
	// one token
	for _, t := range []int{0, 1, 6, 7, 8, 9, 10} {
		add([]int{t}, nil)
		for _, k := range opKinds {
			add([]int{t}, []int{k})
			add([]int{t}, []int{3, k})
		}
	}
	// two tokens
	for _, t1 := range []int{0, 1, 2, 4, 5, 8, 9} {
		for _, t2 := range []int{0, 1, 6, 8, 9} {
			for _, k1 := range []int{0, 2, 3, 5, 8, 10} {
				for _, k2 := range []int{0, 2, 3, 6, 7} {
					isW := func(t int) bool { return t == 0 || t >= 6 && t <= 11 }
					if !isW(t1) && !isW(t2) {
						continue
					}
					add([]int{t1, t2}, []int{k1, k2})
				}
			}
			add([]int{t1, t2}, []int{0})
		}
	}
	if tier == "thorough" {
		for _, t1 := range wTok {
			for _, t2 := range []int{0, 1, 3, 4} {
				for _, t3 := range []int{0, 9, 11} {
					for _, k1 := range []int{0, 3} {
						for _, k2 := range []int{0, 2, 4} {
							for _, k3 := range []int{0, 5, 8} {
								add([]int{t1, t2, t3}, []int{k1, k2, k3})
							}
						}
					}
				}
			}
		}
	}
	return obs
}

func c16Obligs(tier string) []Oblig {
	var obs []Oblig
	kinds := []int{0, 3, 10, 14, 19, 27, 31, 36, 102, 103, 104, 106}
	if tier == "thorough" {
		kinds = append(kinds, 1, 18, 21, 25, 37, 100, 105, 107, 110, 111)
	}
	for _, k1 := range kinds {
		for _, k2 := range []int{0, 3, 102} {
			for pf := 0; pf < 2; pf++ {
				obs = append(obs, Oblig{Harness: "H_c16", Args: []int{k1, k2, 1, pf, 0}})
			}
		}
		// the last operand is a caller-made redactable ending in an arbitrary byte
		obs = append(obs, Oblig{Harness: "H_c16", Args: []int{k1, 120, 1, 0, 0}})
		obs = append(obs, Oblig{Harness: "H_c16", Args: []int{k1, 0, 1, 0, 1}}, Oblig{Harness: "H_c16", Args: []int{k1, 0, 1, 1, 2}})
		for d := 0; d < 10; d++ {
			obs = append(obs, Oblig{Harness: "H_c16d", Args: []int{k1, d, 1}})
		}
	}
	for v := 0; v < 5; v++ {
		obs = append(obs, Oblig{Harness: "H_c16e", Args: []int{v}})
	}
	for wm := 0; wm < 3; wm++ {
		obs = append(obs, Oblig{Harness: "H_c16", Args: []int{0, 0, 1, 2, wm}})
		// %w with an error operand outside HelperForErrorf; empty format with operands
		for _, k := range []int{0, 3, 31, 102} {
			obs = append(obs, Oblig{Harness: "H_c16", Args: []int{k, k, 1, 3, wm}}, Oblig{Harness: "H_c16", Args: []int{k, 0, 1, 4, wm}})
		}
	}
	for _, k := range []int{0, 3, 7, 14, 19, 102} {
		for pi := 0; pi < 6; pi++ {
			for pf := 0; pf < 2; pf++ {
				obs = append(obs, Oblig{Harness: "H_c16s", Args: []int{k, pi, 1, pf}})
			}
		}
	}
	return obs
}

func c17Obligs(tier string) []Oblig {
	var obs []Oblig
	for ek := 0; ek < 9; ek++ {
		for pos := 0; pos < 9; pos++ {
			for hook := 0; hook < 2; hook++ {
				dirs := []int{0, 2}
				if pos == 0 || tier == "thorough" {
					dirs = []int{0, 1, 2, 3, 4, 5, 6, 7, 8}
				}
				for _, d := range dirs {
					obs = append(obs, Oblig{Harness: "H_c17", Args: []int{ek, pos, d, 1, hook, 0}})
				}
			}
			obs = append(obs, Oblig{Harness: "H_c17", Args: []int{ek, pos, 0, 1, 1, 1}})
		}
		for pos := 9; pos <= 12; pos++ {
			for hook := 0; hook < 2; hook++ {
				obs = append(obs, Oblig{Harness: "H_c17", Args: []int{ek, pos, 0, 1, hook, 0}})
			}
		}
		for pre := 1; pre <= 3; pre++ {
			for _, pos := range []int{0, 2, 6, 7} {
				obs = append(obs, Oblig{Harness: "H_c17", Args: []int{ek, pos, 0, 1, 1, 0, pre}, PoolMode: 1})
			}
		}
		// the same error type printed before the hook is installed
		for _, pos := range []int{0, 1, 2, 3} {
			obs = append(obs, Oblig{Harness: "H_c17", Args: []int{ek, pos, 0, 1, 1, 0, 4}})
		}
		// an earlier operand of the same call that panics / has a nil receiver
		for po := 1; po <= 4; po++ {
			for _, pos := range []int{0, 1, 2, 3, 7} {
				for hp := 0; hp < 2; hp++ {
					obs = append(obs, Oblig{Harness: "H_c17", Args: []int{ek, pos, 0, 1, 1, hp, 0, po}})
				}
			}
		}
	}
	return obs
}

var nestCodes = []int{1, 2, 12, 21, 11, 22, 121, 212, 112, 221, 122, 211}

// dirtyPreludes: c12History index + 1 of the earlier calls run before a
// check's own call on an adversarial pool: nested printers under Safe /
// Unsafe, panics out of nested printers (single and double), nested wrappers.
var dirtyPreludes = []int{13, 14, 5, 6, 17, 18, 20, 22, 27, 28}

func c06Obligs(tier string) []Oblig {
	var obs []Oblig
	kinds := []int{0, 3, 10, 14, 19, 21, 27, 31, 35, 36, 100, 101, 102, 103, 104, 105, 106, 107, 108, 110, 111, 112, 113}
	dirs := []int{0, 1, 2, 3, 4, 5, 16, 19, 7, 13}
	for _, pre := range dirtyPreludes {
		for _, code := range []int{1, 2} {
			for _, k := range []int{0, 3, 14, 100, 106, 112} {
				obs = append(obs, Oblig{Harness: "H_c06", Args: []int{code, k, 0, 1, pre}, PoolMode: 1})
			}
		}
	}
	// with an error hook installed
	for _, code := range []int{1, 2, 12, 21} {
		for _, k := range []int{31, 33, 52, 44, 0} {
			for _, d := range []int{0, 1, 3} {
				obs = append(obs, Oblig{Harness: "H_c06", Args: []int{code, k, d, 1, 0, 1}})
			}
		}
	}
	for _, code := range nestCodes {
		for _, k := range kinds {
			for _, d := range dirs {
				if tier != "thorough" && code > 22 && d > 2 {
					continue
				}
				obs = append(obs, Oblig{Harness: "H_c06", Args: []int{code, k, d, 1}})
			}
		}
	}
	// scripts
	for _, code := range []int{2, 1, 21, 12} {
		for fl := 0; fl < 2; fl++ {
			for a := 0; a < 11; a++ {
				obs = append(obs, Oblig{Harness: "H_c06s", Args: []int{code, fl, 1, a}})
				for b := 0; b < 11; b++ {
					if tier == "thorough" || (a <= 6 && b <= 6 && code <= 2) || (code <= 2 && (a >= 9 || b >= 9) && a != 7 && b != 7 && a != 8 && b != 8) {
						obs = append(obs, Oblig{Harness: "H_c06s", Args: []int{code, fl, 1, a, b}})
					}
				}
			}
		}
	}
	return obs
}

func c05Obligs(tier string) []Oblig {
	var obs []Oblig
	n := 2
	if tier == "thorough" {
		n = 3
	}
	for _, pre := range dirtyPreludes {
		for _, ls := range [][]int{{0, 2, 1}, {3, 0, 4}, {6, 1, 0}, {0, 0, 8}} {
			for _, shape := range []int{0, 1, 4} {
				obs = append(obs, Oblig{Harness: "H_c05", Args: []int{ls[0], ls[1], ls[2], shape, 0, 1, 0, pre}, PoolMode: 1})
			}
		}
	}
	// the operands printed once before the registration (per-type memo)
	for _, ls := range [][]int{{5, 0, 1}, {0, 5, 4}, {9, 0, 0}, {15, 5, 0}} {
		for _, shape := range []int{0, 1, 2, 4} {
			for reg := 1; reg <= 2; reg++ {
				if ls[0] == 9 && shape != 0 && shape != 4 {
					continue
				}
				obs = append(obs, Oblig{Harness: "H_c05", Args: []int{ls[0], ls[1], ls[2], shape, 0, 1, reg, 100}})
			}
		}
	}
	// pre-redactable fields under wrappers; io.WriteString from a SafeFormatter
	// (20, 21: nested Print/Printf of plain operands, under Safe() and bare)
	for _, l1 := range []int{17, 18, 19, 20, 21} {
		for _, l2 := range []int{0, 2} {
			for _, shape := range []int{0, 1, 2, 4} {
				for _, fi := range []int{0, 3} {
					if shape != 0 && fi != 0 {
						continue
					}
					if l1 == 20 && (shape == 1 || shape == 2) {
						// inside a container redact (like fmt) prints the Safe()
						// wrapper's content reflectively and never reaches
						// SafeFormat: the top-level shapes carry this leaf
						continue
					}
					obs = append(obs, Oblig{Harness: "H_c05", Args: []int{l1, l2, 1, shape, fi, n, 0}})
					obs = append(obs, Oblig{Harness: "H_c05", Args: []int{l2, l1, 0, shape, fi, n, 0}})
				}
			}
		}
	}
	// %p of a pointer whose type is a SafeValue
	for _, fi := range []int{5, 6, 7} {
		for _, l2 := range []int{0, 2} {
			obs = append(obs, Oblig{Harness: "H_c05", Args: []int{16, l2, 1, 0, fi, 1, 0}})
		}
	}
	for l1 := 0; l1 < 16; l1++ {
		for _, l2 := range []int{0, 2, 3, 5, 6, 10} {
			for _, l3 := range []int{0, 1, 4} {
				for shape := 0; shape < 5; shape++ {
					if l1 == 9 && shape != 0 && shape != 4 {
						continue // a reflect.Value operand is unwrapped at top level only (in fmt too)
					}
					fis := []int{0}
					if shape == 0 {
						fis = []int{0, 1, 2, 3, 4}
					}
					for _, fi := range fis {
						reg := 0
						if l1 == 5 || l2 == 5 || l1 == 9 {
							obs = append(obs, Oblig{Harness: "H_c05", Args: []int{l1, l2, l3, shape, fi, n, 1}})
						}
						if l1 == 15 || ((l1 == 5 || l1 == 9) && l2 == 0) {
							// the POINTER type registered: exact-type matching
							obs = append(obs, Oblig{Harness: "H_c05", Args: []int{l1, l2, l3, shape, fi, n, 2}})
						}
						if tier != "thorough" && shape > 0 && l3 != 0 {
							continue
						}
						obs = append(obs, Oblig{Harness: "H_c05", Args: []int{l1, l2, l3, shape, fi, n, reg}})
					}
				}
			}
		}
	}
	return obs
}

func c12Obligs(tier string) []Oblig {
	var obs []Oblig
	for probe := 0; probe < 15; probe++ {
		for h := 0; h < 30; h++ {
			if h == 14 && tier != "thorough" {
				continue
			}
			obs = append(obs, Oblig{Harness: "H_c12", Args: []int{probe, 1, h}, PoolMode: 1})
		}
		if tier == "thorough" {
			for h1 := 0; h1 < 30; h1++ {
				if h1 == 14 {
					continue
				}
				for _, h2 := range []int{0, 4, 5, 7, 9, 12, 16, 19} {
					obs = append(obs, Oblig{Harness: "H_c12", Args: []int{probe, 1, h1, h2}, PoolMode: 1})
				}
			}
		}
	}
	return obs
}

func simpleSpec(id string, obligs func(string) []Oblig, goals []string, bounds map[string]interface{}, assume, stubs, outside []string) {
	register(&CheckSpec{ID: id, Props: []string{id}, Obligs: obligs, Goals: goals,
		Bounds: func(string) map[string]interface{} { return bounds }, Assume: assume, Stubs: stubs, Outside: outside})
}

func init() {
	stubs := []string{"reflect emulated over go/types", "sync.Pool LIFO model", "stdlib fmt/strconv interpreted from source"}
	simpleSpec("C08", c08Obligs, []string{"nonempty-redactable"},
		map[string]interface{}{"redactables": "symbolic well-formed line-safe fragments: <=1 envelope and <=2 safe runs of ASCII bytes (9 shapes)", "directives": len(c08Dirs), "containers": 15, "compositions": "8 Sprint/Sprintf/Join/JoinTo variants x 15 shape pairs"},
		[]string{"redactables are in the class C01/C03/C10 show the library produces: well-formed, line-safe, no truncated tail; content bytes ASCII"}, stubs, []string{"%T and %p (excluded by the property)", "non-ASCII content bytes", "deeper nesting"})
	simpleSpec("C14", c14Obligs, []string{"bare-v"},
		map[string]interface{}{"flags": "five symbolic booleans (all 32 subsets)", "makeformat_on_printer": "MakeFormat called by a SafeFormat method on redact's own printer, before and after a nested Print/Printf", "wrapper_operand_values": "basic kinds, reflect.Values, and 12 (49 thorough) kinds with formatting methods (nil receivers, panicking methods, errors, GoStringers)", "widths": "absent,0,1,7,12,1000", "precisions": "absent,0,1,5", "verbs": "symbolic ASCII letter (except T p w) and 3 multi-byte runes", "wrapper_operands": "8 (11 thorough) basic kinds"},
		[]string{"the * forms reach MakeFormat as the same fmt.State as a literal width/precision"}, stubs, []string{"widths above 1000"})
	simpleSpec("C15", c15Obligs, []string{"valid-wrap", "multiple-w"},
		map[string]interface{}{"format_tokens": "1-2 (3 thorough) tokens from 13 (incl. %w with flags, widths, indexes)", "operand_kinds": 10, "error_text": "1 symbolic valid-UTF-8 byte"},
		nil, stubs, []string{"longer formats"})
	simpleSpec("C16", c16Obligs, []string{"symbolic-leaf"},
		map[string]interface{}{"operand_kinds": "12 (22 thorough) x 3", "extra_routes": "%w with an error operand outside HelperForErrorf; empty format with operands; StringWithoutMarkers", "routes": "Sprint/Fprint/StringBuilder/Sprintfn/SafeFormat and the printf twins, empty and non-empty outer buffers", "writers": "succeeding, failing, short", "leaf": "1 arbitrary symbolic byte"},
		nil, stubs, []string{"longer leaves", "Print*-to-stdout variants"})
	simpleSpec("C17", c17Obligs, []string{"hook-dispatched"},
		map[string]interface{}{"error_kinds": 9, "positions": 13, "verbs": 9, "configurations": "no hook (compared with the standard library) / hook / panicking hook; hook installed after the error type was first printed", "same_call_predecessors": "nil-receiver Stringer, panicking Stringer, Safe(), nil-pointer Formatter before the error operand", "error_text": "1 symbolic byte"},
		nil, stubs, []string{"deeper nesting than 2"})
	simpleSpec("C06", c06Obligs, []string{"symbolic-under-unsafe", "script-under-unsafe"},
		map[string]interface{}{"wrapper_nestings": "all 12 up to depth 3", "value_kinds": 23, "directives": 10, "scripts": "1-2 calls from 11 (formatter discovering the SafePrinter, and SafeFormatter; incl. redact.Fprint/Fprintf onto the printer)", "leaf": "1 symbolic valid-UTF-8 non-LF byte"},
		[]string{"unsafe renderings are LF-free (LF handling is C03/C09)"}, stubs, []string{"longer scripts"})
	simpleSpec("C05", c05Obligs, []string{"symbolic-leaves"},
		map[string]interface{}{"registry_modes": "empty / value type registered / pointer type registered / registered after the operands were first printed", "safe_pointer": "%p of a pointer whose type is a SafeValue", "leaves": "3 per call from 17 kinds (unsafe string/int, SafeString, Safe(), SafeInt, registered type, safe-emitting SafeFormatter, SafeValue type)", "shapes": "top level, []interface{}, struct with interface fields, map, Sprint", "formats": 5, "registry": "empty / one registered type", "leaf_bytes": "2 (3 thorough) symbolic bytes each for the unsafe and the safe payload"},
		[]string{"unsafe payloads are LF-free and valid UTF-8", "the blanked operand is rendered as one leaf"}, stubs, []string{"bad verbs (C04)", "longer payloads"})
	register(&CheckSpec{ID: "C12", Props: []string{"C12"}, Obligs: c12Obligs, Goals: []string{"ran", "probe-ran-on-recycled-printer"},
		Bounds: func(tier string) map[string]interface{} {
			return map[string]interface{}{"histories": "1 (2 thorough) prior calls from 25 dirtying kinds", "probes": "10 compared with a fresh process + 3 compared with their specified result (so that the history is the first to show its value types to the library)", "pool": "adversarial sync.Pool model: Get returns any freed printer or a new one (all choices explored)", "payload": "1 symbolic byte in probe and history", "ownership": "on every path: no load/store/append/copy through memory of a printer (fields, nested structs, first 1024 cells of its buffers) between its Put and its next Get; no store to a package-level variable of the library (or update of a map it holds) outside Register*/init"}
		},
		Assume:  []string{"INTERLEAVINGS ARE NOT EXPLORED: the executor is sequential. The concurrency half is decided only through a sequential sufficient condition for race freedom between calls on distinct destinations: calls share no memory but pooled printers and library globals, so a call that touches a printer only between its own Get and Put and writes no library global cannot race with another call. A reported breach is confirmed natively by running the path's vector in 8 goroutines x 200 under the race detector."},
		Stubs:   []string{"sync.Pool: adversarial model with ownership tracking", "reflect emulated"},
		Outside: []string{"goroutine interleavings as such", "races through memory owned by the caller's operands", "races inside the standard library", "histories longer than 2"}})
}
