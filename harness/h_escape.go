//go:build verif
// +build verif

package zzverif

import (
	"github.com/cockroachdb/redact"
	"github.com/cockroachdb/redact/internal/buffer"
)

// Buffer modes as the public API sees them (untyped constants).
const (
	modeUnsafe  = 0
	modeSafeEsc = 1
	modeRaw     = 2
)

// vFragment returns a symbolic well-formed, line-safe fragment of the
// given shape, as documented raw-mode input.  Shapes:
//
//	0: empty
//	1: one ASCII byte
//	2: S a E            (closed envelope with 1 ASCII non-LF byte)
//	3: a S b E          (safe byte, envelope)
//	4: S a E b          (envelope, safe byte)
//	5: a LF             (safe run ending in LF)
//	6: S E              (empty envelope)
//	7: two safe ASCII bytes
//	8: S a E LF
func vFragment(shape int) []byte {
	asc := func(nl bool) byte {
		c := vByte()
		vAssume(c < 0x80)
		if !nl {
			vAssume(c != '\n')
		}
		return c
	}
	switch shape {
	case 0:
		return nil
	case 1:
		return []byte{asc(true)}
	case 2:
		return cat(mS, []byte{asc(false)}, mE)
	case 3:
		return cat([]byte{asc(true)}, mS, []byte{asc(false)}, mE)
	case 4:
		return cat(mS, []byte{asc(false)}, mE, []byte{asc(true)})
	case 5:
		return []byte{asc(true), '\n'}
	case 6:
		return cat(mS, mE)
	case 7:
		return []byte{asc(true), asc(true)}
	case 8:
		return cat(mS, []byte{asc(false)}, mE, []byte{'\n'})
	}
	panic("bad fragment shape")
}

const nFragShapes = 9

// refEscape is the byte-level specification of what the buffer must
// hold after: raw write of wf fragment P, then Q written in unsafe mode
// (brk) or safe-escaped mode (!brk), then finalisation.  tailQ reports
// whether a '?' was appended for an invalid tail (accepted either way
// by the caller under the rules of DESIGN §4).
func refEscapeBody(Q []byte, brk bool) []byte {
	// escaped payload with LF runs wrapped as E LF+ S when brk
	out := make([]byte, 0, len(Q)+8)
	for i := 0; i < len(Q); {
		if isM(Q, i) {
			out = append(out, '?')
			i += 3
		} else if brk && Q[i] == '\n' {
			out = append(out, mE...)
			for i < len(Q) && Q[i] == '\n' {
				out = append(out, '\n')
				i++
			}
			out = append(out, mS...)
		} else {
			out = append(out, Q[i])
			i++
		}
	}
	return out
}

// normEnv removes empty envelopes "S E" and merges "E S"; used to
// compare modulo the elisions the buffer performs.
func normEnv(b []byte) []byte { return mergeAdj(b) }

// payload templates: 's' start marker, 'e' end marker, 'n' line feed,
// 'x' cross, '.' one fully symbolic byte, 'E' 0xE2, '8' 0x80
var payloadTemplates = []string{
	"",       // 0: all symbolic (n bytes)
	"..sn.",  // 1: marker right before a line feed, two bytes in front
	"..en.",  // 2
	"ns.",    // 3: line feed first, then marker
	".ss.",   // 4: adjacent markers
	".se.",   // 5
	"E.s",    // 6: stray lead byte before a marker
	"E8.e.",  // 7
	"s.n.e",  // 8
	"..n.E",  // 9: truncated tail after a split
	"n.n",    // 10
	".sn",    // 11: marker + LF at the very end
	"..s..n", // 12
	"E.n.",   // 13: LF within two bytes of a stray lead byte
	"E8n.",   // 14
	".nns.",  // 15
}

func templatePayload(t string) []byte {
	var q []byte
	for i := 0; i < len(t); i++ {
		switch t[i] {
		case 's':
			q = append(q, mS...)
		case 'e':
			q = append(q, mE...)
		case 'n':
			q = append(q, '\n')
		case 'x':
			q = append(q, mX...)
		case 'E':
			q = append(q, 0xE2)
		case '8':
			q = append(q, 0x80)
		default:
			q = append(q, vByte())
		}
	}
	return q
}

// H_escape: C10/C01/C03 on the escape scanner through the public
// ManualBuffer.  p = [fragment shape, n payload bytes, mode(0 unsafe,1 safe-escaped), split, template]
// split = -1: one Write; otherwise Write(Q[:split]); Write(Q[split:]).
// template > 0: the payload follows payloadTemplates[template] (n ignored).
func H_escape(p []int) {
	shape, n, mode, split := p[0], p[1], p[2], p[3]
	P := vFragment(shape)
	var Q []byte
	if len(p) > 4 && p[4] > 0 {
		Q = templatePayload(payloadTemplates[p[4]])
		n = len(Q)
	} else {
		Q = vBytes(n)
	}
	if len(p) > 5 && p[5] > 0 {
		// a long concrete prefix: the buffer's storage (64 bytes at first) is
		// reallocated between the two writes; split counts from the end of the prefix
		pre := make([]byte, p[5])
		for j := range pre {
			pre[j] = 'x'
		}
		Q = cat(pre, Q)
		n = len(Q)
		if split >= 0 {
			split += p[5]
		}
	}
	Q0 := append([]byte{}, Q...)
	var b redact.ManualBuffer
	b.SetMode(modeRaw)
	b.Write(P)
	b.SetMode(redactMode(mode))
	if split < 0 {
		b.Write(Q)
	} else {
		b.Write(Q[:split])
		b.WriteString(string(Q[split:]))
	}
	out := []byte(b.RedactableBytes())
	vObserve("out", out)
	wf, ls := wfls(out)
	vAssert(wf, "C01/wf")
	vAssert(ls, "C03/lineSafe")
	if vProp("C03") {
		vAssert(linesWF(out), "C03/each-line-wf")
	}
	vAssert(bytesEq(Q, Q0), "C10/payload-unmodified")
	// reference
	brk := mode == modeUnsafe
	var want []byte
	if brk {
		want = cat(P, mS, refEscapeBody(Q, true), mE)
	} else {
		want = cat(P, refEscapeBody(Q, false))
	}
	got := out
	// tail '?': present iff got is one longer than the reference
	// modulo elisions; check prefix equality on normalised forms.
	ng, nw := normEnv(got), normEnv(want)
	sg, sw := strip(got), strip(want)
	vAssert(hasPrefix(sg, sw), "C10/strip-prefix")
	extra := len(sg) - len(sw)
	vAssert(extra == 0 || (extra == 1 && sg[len(sg)-1] == '?'), "C10/strip-tail")
	if extra == 0 {
		vAssert(bytesEq(ng, nw), "C10/escape-ref")
	}
	if n > 0 && validUTF8(Q) {
		vAssert(extra == 0, "C10/no-tail-on-valid")
	}
	if len(Q) > 0 {
		vAssert(vOr(vNot(truncatedTail(Q)), extra == 1), "C10/tail-mark-after-truncated-sequence")
	}
	// envelopes deleted: P's safe text, then (safe mode) escaped Q or (unsafe) LFs of Q
	dg := delEnv(got)
	if brk {
		vAssert(bytesEq(dg, cat(delEnv(P), nlOf(Q))), "C09/delenv-unsafe")
	} else if extra == 0 {
		vAssert(bytesEq(dg, cat(delEnv(P), esc(Q))), "C09/delenv-safe")
	}
	vCover(hasMarker(Q), "marker-in-payload")
	vCover(n > 0 && Q[0] == '\n', "lf-first")
	vCover(n > 0 && Q[n-1] == '\n', "lf-last")
	vCover(extra == 1, "tail-added")
}

// truncatedTail: b ends in a multi-byte sequence that is cut short (a lead
// byte, or a lead byte and some of its continuation bytes, at the very
// end).  One term; no branching on symbolic bytes.
func truncatedTail(b []byte) bool {
	n := len(b)
	r := false
	second := func(l, c byte) bool {
		// c is acceptable as the second byte after lead l (l in E0..F4)
		lo, hi := vIteByte(l == 0xE0, 0xA0, vIteByte(l == 0xF0, 0x90, 0x80)), vIteByte(l == 0xED, 0x9F, vIteByte(l == 0xF4, 0x8F, 0xBF))
		return vAnd(c >= lo, c <= hi)
	}
	if n >= 1 {
		c := b[n-1]
		r = vOr(r, vAnd(c >= 0xC2, c <= 0xF4))
	}
	if n >= 2 {
		l, c := b[n-2], b[n-1]
		r = vOr(r, vAnd(vAnd(l >= 0xE0, l <= 0xF4), second(l, c)))
	}
	if n >= 3 {
		l, c1, c2 := b[n-3], b[n-2], b[n-1]
		r = vOr(r, vAnd(vAnd(vAnd(l >= 0xF0, l <= 0xF4), second(l, c1)), vAnd(c2 >= 0x80, c2 <= 0xBF)))
	}
	return r
}

func redactMode(m int) buffer.OutputMode { return buffer.OutputMode(m) }

func init() {
	Harnesses["H_escape"] = H_escape
}

// H_escbytes: redact.EscapeBytes(b) (C10's second sentence; also C01/C03).
// p = [n, template]
func H_escbytes(p []int) {
	var b []byte
	if p[1] > 0 {
		b = templatePayload(payloadTemplates[p[1]])
	} else {
		b = vBytes(p[0])
	}
	b0 := append([]byte{}, b...)
	out := []byte(redact.EscapeBytes(b))
	vObserve("out", out)
	wf, ls := wfls(out)
	vAssert(wf, "C01/wf-escapebytes")
	vAssert(ls, "C03/lineSafe-escapebytes")
	if vProp("C03") {
		vAssert(linesWF(out), "C03/each-line-wf-escapebytes")
	}
	vAssert(wf, "C10/escapebytes-wf")
	vAssert(ls, "C10/escapebytes-lineSafe")
	vAssert(bytesEq(b, b0), "C10/payload-unmodified")
	if !wf {
		return
	}
	// stripped form = escaped text (+ one '?' after a truncated tail)
	sg, want := strip(out), esc(b0)
	vAssert(hasPrefix(sg, want), "C10/escapebytes-strip")
	extra := len(sg) - len(want)
	vAssert(extra == 0 || (extra == 1 && sg[len(sg)-1] == '?'), "C10/escapebytes-strip-tail")
	if len(b0) > 0 && validUTF8(b0) {
		vAssert(extra == 0, "C10/escapebytes-no-tail-on-valid")
	}
	if len(b0) > 0 {
		vAssert(vOr(vNot(truncatedTail(b0)), extra == 1), "C10/escapebytes-tail-mark-after-truncated-sequence")
	}
	// redacted form: only redacted markers and the line feeds of b
	r := redactRef(out)
	vAssert(bytesEq(delEnv(r), nlOf(b0)), "C10/escapebytes-redacted-only-markers-and-lf")
	vAssert(bytesEq(delEnv(out), nlOf(b0)), "C03/escapebytes-lf-outside")
	// per-line well-formedness (C03, second sentence)
	vAssert(bytesEq(redactRef(out), redactLines(out)), "C03/escapebytes-per-line")
	// idempotence of the escaped text
	e1 := redact.EscapeMarkers(append([]byte{}, b0...))
	vAssert(bytesEq(redact.EscapeMarkers(append([]byte{}, e1...)), e1), "C10/escape-idempotent")
	vCover(len(b0) > 0 && b0[len(b0)-1] == '\n', "lf-last")
	vCover(len(b0) > 0 && b0[0] == '\n', "lf-first")
}

func init() { Harnesses["H_escbytes"] = H_escbytes }
