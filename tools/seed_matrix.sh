#!/bin/bash
# seed_matrix.sh <seed ids...>: run each seed against the check of its property; log one line each.
cd /verif
for s in "$@"; do
  prop=${s%%-*}
  out=$(./tools/try_seed.sh $s $prop quick 40 2>&1)
  if echo "$out" | grep -q "^VIOLATION"; then r=CAUGHT; else r=MISSED; fi
  echo "$s $prop $r $(echo "$out" | grep '^check ' | cut -c1-200)"
done
