//go:build verif
// +build verif

package zzverif

import (
	"fmt"
	"reflect"

	"github.com/cockroachdb/redact"
)

// scripted user methods: a bounded "program" of calls on the printer
const (
	stSafeString = iota
	stSafeRune
	stUnsafeString
	stWrite
	stPrintStr
	stPrintSafe
	stPrintfStr
	stPrintRedactable
	stPrintUnsafe
	stFprintf // redact.Fprintf on the printer itself (as an io.Writer)
	stFprint
	nScriptSteps
)

func runScript(w redact.SafePrinter, steps []int, s string) {
	for _, st := range steps {
		switch st {
		case stSafeString:
			w.SafeString("ss")
		case stSafeRune:
			w.SafeRune('r')
		case stUnsafeString:
			w.UnsafeString(s)
		case stWrite:
			w.Write([]byte(s))
		case stPrintStr:
			w.Print(s)
		case stPrintSafe:
			w.Print(redact.Safe(s))
		case stPrintfStr:
			w.Printf("l%sl %d", s, 12)
		case stPrintRedactable:
			w.Print(redact.RedactableString("p‹q›"))
		case stPrintUnsafe:
			w.Print(redact.Unsafe(redact.SafeString(s)))
		case stFprintf:
			redact.Fprintf(w, "f%sf %d", s, 3)
		case stFprint:
			redact.Fprint(w, s, redact.Safe("g"))
		}
	}
}

// a fmt.Formatter that discovers the SafePrinter behind its fmt.State
type scrFormatter struct {
	steps []int
	s     string
}

func (x scrFormatter) Format(st fmt.State, verb rune) {
	if w, ok := st.(redact.SafePrinter); ok {
		runScript(w, x.steps, x.s)
	} else {
		st.Write([]byte(x.s))
	}
}

// a SafeFormatter running the script
type scrSafeFormatter struct {
	steps []int
	s     string
}

func (x scrSafeFormatter) SafeFormat(w redact.SafePrinter, verb rune) { runScript(w, x.steps, x.s) }

func wrapNest(code int, x interface{}) (v interface{}, outerUnsafe bool) {
	// code: decimal digits, most significant = outermost; 1 = Safe, 2 = Unsafe
	var ws []int
	for c := code; c > 0; c /= 10 {
		ws = append(ws, c%10)
	}
	// ws[0] is innermost
	v = x
	for _, w := range ws {
		if w == 1 {
			v = redact.Safe(v)
		} else {
			v = redact.Unsafe(v)
		}
	}
	return v, ws[len(ws)-1] == 2
}

// H_c06: Unsafe(x) envelopes all of x, Safe(x) none, outermost wins.
// p = [nest code, x kind, directive, n]  (passive values)
func H_c06(p []int) {
	code, kind, di, n := p[0], p[1], p[2], p[3]
	d := directives[di]
	if addrLeak(kind, d) {
		return
	}
	bs := vBytes(n)
	for k := range bs {
		vAssume(bs[k] != '\n')
	}
	vAssumeValidUTF8(bs)
	s := string(bs)
	if kind == vkRegInt {
		redact.RegisterSafeType(reflect.TypeOf(regInt(0)))
	}
	x := mkValue(kind, s, 42)
	v, outerUnsafe := wrapNest(code, x)
	vSite(fmt.Sprintf("nest=%d kind=%d dir=%q", code, kind, d))
	if len(p) > 4 && p[4] > 0 {
		c12History(p[4]-1, "h")
	}
	hookOn := len(p) > 5 && p[5] == 1
	if hookOn {
		// an error hook that marks part of its output unsafe (as error
		// libraries do): under Safe() none of it is enveloped, under Unsafe()
		// the hook is not used at all
		redact.RegisterRedactErrorFn(func(err error, w redact.SafePrinter, verb rune) {
			w.SafeString("H[")
			w.UnsafeString("u")
			w.Print(redact.Safe("s"), "x")
			w.SafeString("]")
		})
	}
	// a second, unsafe operand follows: the wrapper's override must end with its operand
	r := catchRedact(func() redact.RedactableString { return redact.Sprintf("a‹ "+d+" b %v", v, "T") })
	if r.panicked {
		return
	}
	out := []byte(r.out)
	vObserve("out", out)
	wf, _ := wfls(out)
	vAssert(wf, "C06/wf")
	if !wf {
		return
	}
	if hookOn && !outerUnsafe {
		tail := []byte(" b ‹T›")
		vAssert(hasSuffixBytes(out, tail), "C06/next-operand-still-unsafe")
		if hasSuffixBytes(out, tail) {
			vAssert(!hasMarker(out[:len(out)-len(tail)]), "C06/safe-envelopes-none-hook")
		}
		return
	}
	de := delEnv(out)
	// the blank leaf renders as nothing under every verb except %T (its
	// type has a name): the blanked references use %v there
	d0 := d
	if d == "%T" {
		d0 = "%v"
	}
	if kind < 100 {
		f := catchFmt(func() string { return fmt.Sprintf("a‹ "+d+" b %v", mkValue(kind, s, 42), "T") })
		if f.panicked {
			return
		}
		vAssert(bytesEq(strip(out), esc([]byte(f.out))), "C06/characters-as-fmt")
		f0 := catchFmt(func() string { return fmt.Sprintf("a‹ "+d0+" b %v", blankLeaf{}, blankS("")) })
		if outerUnsafe {
			vAssert(bytesEq(de, esc([]byte(f0.out))), "C06/unsafe-envelopes-all")
		} else {
			f1 := catchFmt(func() string { return fmt.Sprintf("a‹ "+d+" b %v", mkValue(kind, s, 42), blankS("")) })
			vAssert(bytesEq(de, esc([]byte(f1.out))), "C06/safe-envelopes-none")
			vAssert(hasSuffixBytes(out, []byte(" b ‹T›")), "C06/next-operand-still-unsafe")
		}
	} else if outerUnsafe {
		// redact-specific x under Unsafe: nothing of x outside envelopes
		f0 := catchFmt(func() string { return fmt.Sprintf("a‹ "+d0+" b %v", blankLeaf{}, blankS("")) })
		vAssert(bytesEq(de, esc([]byte(f0.out))), "C06/unsafe-envelopes-all")
	}
	vCover(n > 0 && outerUnsafe, "symbolic-under-unsafe")
}

func hasSuffixBytes(a, suf []byte) bool {
	return len(a) >= len(suf) && bytesEq(a[len(a)-len(suf):], suf)
}

// blankLeaf renders as nothing under the standard fmt.
type blankLeaf struct{}

func (blankLeaf) Format(st fmt.State, verb rune) {}

// H_c06s: scripted user methods under Unsafe / Safe.
// p = [nest code, formatter flavour (0 fmt.Formatter, 1 SafeFormatter), n, step1, step2, ...]
func H_c06s(p []int) {
	code, flavour, n := p[0], p[1], p[2]
	steps := p[3:]
	bs := vBytes(n)
	for k := range bs {
		vAssume(bs[k] != '\n')
	}
	vAssumeValidUTF8(bs)
	s := string(bs)
	var x interface{}
	if flavour == 0 {
		x = scrFormatter{steps, s}
	} else {
		x = scrSafeFormatter{steps, s}
	}
	v, outerUnsafe := wrapNest(code, x)
	vSite(fmt.Sprintf("script nest=%d flavour=%d steps=%v", code, flavour, steps))
	out := []byte(redact.Sprintf("a %v b", v))
	vObserve("out", out)
	wf, ls := wfls(out)
	vAssert(wf, "C06/wf")
	vAssert(ls, "C03/lineSafe")
	if vProp("C03") {
		vAssert(linesWF(out), "C03/each-line-wf")
	}
	if wf && outerUnsafe {
		vAssert(bytesEq(delEnv(out), []byte("a  b")), "C06/unsafe-envelopes-all-script")
	}
	hasRedactable := false
	for _, st := range steps {
		if st == stPrintRedactable || st == stFprintf || st == stFprint {
			hasRedactable = true // a redactable keeps its own envelopes under Safe(): it has a classification of its own
		}
	}
	if wf && !outerUnsafe && flavour == 0 && !hasRedactable {
		// Safe(x), x a plain fmt.Formatter (no classification of its own):
		// no envelope at all
		vAssert(!hasMarker(out), "C06/safe-envelopes-none-script")
	}
	vCover(outerUnsafe, "script-under-unsafe")
}

func init() {
	Harnesses["H_c06"] = H_c06
	Harnesses["H_c06s"] = H_c06s
}
