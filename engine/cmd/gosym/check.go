package main

import (
	"bufio"
	"encoding/json"
	"fmt"
	"io"
	"os"
	"os/exec"
	"path/filepath"
	"regexp"
	"sort"
	"strconv"
	"strings"
	"sync"
	"time"

	"gosym/interp"
)

// Oblig is one obligation: a harness with concrete shape parameters.
type Oblig struct {
	Harness   string
	Args      []int
	PanicViol bool
	PoolMode  int
	// Const: observations tagged "const:*" must be one value over all
	// paths of the obligation (C02).
}

// CheckSpec describes the check of one property.
type CheckSpec struct {
	ID          string
	Props       []string // active assertion groups
	Obligs      func(tier string) []Oblig
	Bounds      func(tier string) map[string]interface{}
	Goals       []string // cover goals expected on the unchanged tree
	Assume      []string
	Stubs       []string
	Outside     []string
	Deadline    func(tier string) time.Duration
	ValidateAll bool // replay every sampled path natively (conformance checks)
}

var checks = map[string]*CheckSpec{}

func register(c *CheckSpec) { checks[c.ID] = c }

// ---- known findings ----

type Finding struct {
	Status   string `json:"status"` // known | fixed
	Property string `json:"property"`
	Harness  string `json:"harness"`
	Match    string `json:"match"` // regexp on "<msg> site=<site> args=<args>"
	What     string `json:"what"`
	Commit   string `json:"commit,omitempty"`
}

func loadFindings() []Finding {
	var fs []Finding
	b, err := os.ReadFile(filepath.Join(verifDir, "known_findings.json"))
	if err != nil {
		return nil
	}
	var doc struct {
		Findings []Finding `json:"findings"`
	}
	if json.Unmarshal(b, &doc) == nil {
		fs = doc.Findings
	}
	return fs
}

func matchFinding(fs []Finding, prop, harness, key string) *Finding {
	for i := range fs {
		f := &fs[i]
		if f.Status != "known" || f.Property != prop {
			continue
		}
		if f.Harness != "" && f.Harness != harness {
			continue
		}
		if ok, _ := regexp.MatchString(f.Match, key); ok {
			return f
		}
	}
	return nil
}

// ---- worker processes ----

type workerProc struct {
	cmd  *exec.Cmd
	in   io.WriteCloser
	out  *bufio.Reader
	busy bool
	dead bool
}

func startWorker() (*workerProc, error) {
	cmd := exec.Command(os.Args[0], "worker")
	cmd.Env = append(os.Environ(), "GOMAXPROCS=2", "GOGC=150")
	cmd.Stderr = os.Stderr
	in, _ := cmd.StdinPipe()
	out, _ := cmd.StdoutPipe()
	if err := cmd.Start(); err != nil {
		return nil, err
	}
	w := &workerProc{cmd: cmd, in: in, out: bufio.NewReaderSize(out, 1<<20)}
	line, err := w.out.ReadBytes('\n')
	if err != nil {
		return nil, fmt.Errorf("worker died at start: %v", err)
	}
	var hello map[string]interface{}
	json.Unmarshal(line, &hello)
	if f, ok := hello["fatal"]; ok {
		return nil, fmt.Errorf("worker: %v", f)
	}
	return w, nil
}

func (w *workerProc) run(t *interp.Task) (*interp.TaskResult, error) {
	b, _ := json.Marshal(t)
	if _, err := w.in.Write(append(b, '\n')); err != nil {
		return nil, err
	}
	line, err := w.out.ReadBytes('\n')
	if err != nil {
		return nil, err
	}
	var r interp.TaskResult
	if err := json.Unmarshal(line, &r); err != nil {
		return nil, err
	}
	return &r, nil
}

func (w *workerProc) stop() {
	w.in.Close()
	done := make(chan struct{})
	go func() { w.cmd.Wait(); close(done) }()
	select {
	case <-done:
	case <-time.After(2 * time.Second):
		w.cmd.Process.Kill()
	}
}

// ---- native twin ----

type nativeTwin struct {
	dir string
	bin string
	err error
	dur time.Duration
}

func buildNative() *nativeTwin {
	t0 := time.Now()
	nt := &nativeTwin{}
	dir, err := os.MkdirTemp("", "gosym-native-")
	if err != nil {
		nt.err = err
		return nt
	}
	nt.dir = dir
	ov, err := interp.OverlayFor(repoDir, harnessDir)
	if err != nil {
		nt.err = err
		return nt
	}
	b, _ := json.Marshal(map[string]interface{}{"Replace": ov})
	ovf := filepath.Join(dir, "overlay.json")
	os.WriteFile(ovf, b, 0644)
	nt.bin = filepath.Join(dir, "native")
	cmd := exec.Command("go", "build", "-tags", "verif", "-overlay", ovf, "-o", nt.bin, "./zzverif/nativemain")
	cmd.Dir = repoDir
	cmd.Env = append(os.Environ(), "GOFLAGS=-mod=mod", "GOPROXY=off", "GOSUMDB=off", "GOTOOLCHAIN=local", "GOWORK=off", "GOCACHE="+goCache())
	out, err := cmd.CombinedOutput()
	if err != nil {
		nt.err = fmt.Errorf("native build failed: %v\n%s", err, out)
	}
	nt.dur = time.Since(t0)
	return nt
}

// raceConfirm replays a vector concurrently (8 goroutines x 200 runs) in
// a twin built with -race and reports whether the race detector flags an
// access at loc ("file.go:123").  Used for C12/no-use-after-release,
// whose native witness is a data race, not a wrong result.
func (nt *nativeTwin) raceConfirm(in nativeIn, loc string) (bool, string) {
	if nt.err != nil {
		return false, nt.err.Error()
	}
	bin := filepath.Join(nt.dir, "native-race")
	if _, err := os.Stat(bin); err != nil {
		cmd := exec.Command("go", "build", "-race", "-tags", "verif", "-overlay", filepath.Join(nt.dir, "overlay.json"), "-o", bin, "./zzverif/nativemain")
		cmd.Dir = repoDir
		cmd.Env = append(os.Environ(), "GOFLAGS=-mod=mod", "GOPROXY=off", "GOSUMDB=off", "GOTOOLCHAIN=local", "GOWORK=off", "GOCACHE="+goCache(), "CGO_ENABLED=1")
		if out, err := cmd.CombinedOutput(); err != nil {
			return false, fmt.Sprintf("race build failed: %v %s", err, out)
		}
	}
	f := filepath.Join(nt.dir, fmt.Sprintf("race-%d.jsonl", time.Now().UnixNano()))
	b, _ := json.Marshal(in)
	os.WriteFile(f, append(b, '\n'), 0644)
	defer os.Remove(f)
	cmd := exec.Command(bin, "-race", f)
	cmd.Env = append(os.Environ(), "GORACE=halt_on_error=0")
	var stderr strings.Builder
	cmd.Stderr = &stderr
	done := make(chan struct{})
	go func() { cmd.Output(); close(done) }()
	select {
	case <-done:
	case <-time.After(180 * time.Second):
		if cmd.Process != nil {
			cmd.Process.Kill()
		}
		<-done
		return false, "race replay timeout"
	}
	msg := stderr.String()
	if !strings.Contains(msg, "DATA RACE") {
		return false, "no race reported"
	}
	if loc != "" && !strings.Contains(msg, loc) {
		return false, "race reported elsewhere"
	}
	// first report mentioning loc
	for _, rep := range strings.Split(msg, "==================") {
		if strings.Contains(rep, "DATA RACE") && strings.Contains(rep, loc) {
			lines := strings.Split(strings.TrimSpace(rep), "\n")
			if len(lines) > 12 {
				lines = lines[:12]
			}
			return true, "race: " + strings.Join(lines, " / ")
		}
	}
	return true, "race at " + loc
}

func isRaceMsg(msg string) bool {
	return strings.Contains(msg, "/no-use-after-release") || strings.Contains(msg, "/no-unsynchronised-shared-write")
}

// raceLoc extracts "file.go:123" from a no-use-after-release message.
func raceLoc(msg string) (string, bool) {
	if !isRaceMsg(msg) {
		return "", false
	}
	if i := strings.Index(msg, " at="); i >= 0 {
		l := msg[i+4:]
		if j := strings.IndexByte(l, ' '); j >= 0 {
			l = l[:j]
		}
		return l, true
	}
	return "", true
}

func goCache() string {
	if c := os.Getenv("GOCACHE"); c != "" {
		return c
	}
	h, _ := os.UserCacheDir()
	return filepath.Join(h, "go-build")
}

func (nt *nativeTwin) cleanup() {
	if nt.dir != "" {
		os.RemoveAll(nt.dir)
	}
}

type nativeIn struct {
	Harness string   `json:"harness"`
	Args    []int    `json:"args"`
	Vector  []uint64 `json:"vector"`
	Props   []string `json:"props"`
}
type nativeOut struct {
	Outcome string            `json:"outcome"`
	Obs     map[string]string `json:"obs"`
}

func (nt *nativeTwin) run(ins []nativeIn) ([]nativeOut, error) {
	if nt.err != nil {
		return nil, nt.err
	}
	if len(ins) == 0 {
		return nil, nil
	}
	f := filepath.Join(nt.dir, fmt.Sprintf("in-%d.jsonl", time.Now().UnixNano()))
	var sb strings.Builder
	for _, x := range ins {
		b, _ := json.Marshal(x)
		sb.Write(b)
		sb.WriteByte('\n')
	}
	os.WriteFile(f, []byte(sb.String()), 0644)
	defer os.Remove(f)
	// one process per input would be safest against crashes; batch and
	// fall back to singles if the batch dies.
	outs, err := nt.runFile(f, len(ins))
	if err == nil {
		return outs, nil
	}
	outs = nil
	for _, x := range ins {
		b, _ := json.Marshal(x)
		os.WriteFile(f, append(b, '\n'), 0644)
		o, err := nt.runFile(f, 1)
		if err != nil {
			outs = append(outs, nativeOut{Outcome: "crash:" + err.Error()})
		} else {
			outs = append(outs, o[0])
		}
	}
	return outs, nil
}

// runSingles runs every input in its own process.
func (nt *nativeTwin) runSingles(ins []nativeIn) ([]nativeOut, error) {
	if nt.err != nil {
		return nil, nt.err
	}
	var outs []nativeOut
	for _, x := range ins {
		f := filepath.Join(nt.dir, fmt.Sprintf("in1-%d.jsonl", time.Now().UnixNano()))
		b, _ := json.Marshal(x)
		os.WriteFile(f, append(b, '\n'), 0644)
		o, err := nt.runFile(f, 1)
		os.Remove(f)
		if err != nil {
			outs = append(outs, nativeOut{Outcome: "crash:" + err.Error()})
		} else {
			outs = append(outs, o[0])
		}
	}
	return outs, nil
}

func (nt *nativeTwin) runFile(f string, n int) ([]nativeOut, error) {
	cmd := exec.Command(nt.bin, f)
	var stderr strings.Builder
	cmd.Stderr = &stderr
	done := make(chan struct{})
	var out []byte
	var err error
	go func() { out, err = cmd.Output(); close(done) }()
	select {
	case <-done:
	case <-time.After(120 * time.Second):
		if cmd.Process != nil {
			cmd.Process.Kill()
		}
		<-done
		return nil, fmt.Errorf("native timeout")
	}
	var outs []nativeOut
	for _, line := range strings.Split(strings.TrimSpace(string(out)), "\n") {
		if line == "" {
			continue
		}
		var o nativeOut
		if json.Unmarshal([]byte(line), &o) == nil {
			outs = append(outs, o)
		}
	}
	if err != nil || len(outs) != n {
		msg := stderr.String()
		if len(msg) > 300 {
			msg = msg[:300]
		}
		return nil, fmt.Errorf("native run: %v (%d/%d outputs) %s", err, len(outs), n, msg)
	}
	return outs, nil
}

// ---- the check driver ----

type replayFile struct {
	Property string   `json:"property"`
	Harness  string   `json:"harness"`
	Args     []int    `json:"args"`
	Vector   []uint64 `json:"vector"`
	Names    []string `json:"names,omitempty"`
	Msg      string   `json:"msg"`
	Props    []string `json:"props"`
	Kind     string   `json:"kind"` // assert | panic | constancy
	Vector2  []uint64 `json:"vector2,omitempty"`
	Tag      string   `json:"tag,omitempty"`
	Native   string   `json:"native_outcome,omitempty"`
}

type violRec struct {
	ob  Oblig
	v   interp.Violation
	key string
}

func checkMain(args []string) int {
	if len(args) < 1 {
		usage()
	}
	id := args[0]
	tier := envOr("VERIF_TIER", "quick")
	nworkers := 16
	for i := 1; i < len(args); i++ {
		switch args[i] {
		case "--tier":
			i++
			tier = args[i]
		case "--workers":
			i++
			nworkers, _ = strconv.Atoi(args[i])
		}
	}
	seed, _ := strconv.Atoi(envOr("VERIF_SEED", "0"))
	spec := checks[id]
	if spec == nil {
		fmt.Fprintln(os.Stderr, "unknown check", id)
		return 2
	}
	t0 := time.Now()
	findings := loadFindings()
	obligs := spec.Obligs(tier)
	deadline := 240 * time.Second
	if tier == "thorough" {
		deadline = 45 * time.Minute
	}
	if spec.Deadline != nil {
		deadline = spec.Deadline(tier)
	}

	// native twin in the background
	var nt *nativeTwin
	var ntWG sync.WaitGroup
	ntWG.Add(1)
	go func() { defer ntWG.Done(); nt = buildNative() }()

	// task queue
	type qtask struct {
		t  *interp.Task
		ob int
	}
	var mu sync.Mutex
	var queue []qtask
	nextID := 0
	perm := make([]int, len(obligs))
	for i := range perm {
		perm[i] = i
	}
	if seed != 0 {
		// deterministic permutation of the work queue
		x := uint64(seed)*2862933555777941757 + 3037000493
		for i := len(perm) - 1; i > 0; i-- {
			x = x*6364136223846793005 + 1442695040888963407
			j := int((x >> 33) % uint64(i+1))
			perm[i], perm[j] = perm[j], perm[i]
		}
	}
	nSamples := 1
	if spec.ValidateAll {
		nSamples = 1 << 20
	}
	mkTask := func(ob int, prefix []int) *interp.Task {
		o := obligs[ob]
		nextID++
		return &interp.Task{ID: nextID, Oblig: ob, Harness: o.Harness, Args: o.Args, Prefix: prefix,
			MaxPaths: 400, BudgetMs: 4000, PanicViol: o.PanicViol, NSamples: nSamples, PoolMode: o.PoolMode, Props: spec.Props}
	}
	for _, ob := range perm {
		queue = append(queue, qtask{mkTask(ob, nil), ob})
	}
	inflight := 0
	cond := sync.NewCond(&mu)

	// aggregate
	agg := struct {
		paths, completed, stopped, panics, unsup, unknown, asserts, decisions int
		queries, sat, unsat, qunknown                                         int
		solverMs                                                              float64
		stopReasons, panicMsgs, unsupMsgs                                     map[string]int
		covers                                                                map[string]bool
		funcs                                                                 map[string]bool
		samples                                                               []interp.Sample
		viols                                                                 []violRec
		obsClasses                                                            map[int]map[string]map[string][]uint64 // oblig -> tag -> hex -> vector
		errs                                                                  []string
		tasks                                                                 int
		obligPaths                                                            map[int]int
	}{stopReasons: map[string]int{}, panicMsgs: map[string]int{}, unsupMsgs: map[string]int{}, covers: map[string]bool{}, funcs: map[string]bool{},
		obsClasses: map[int]map[string]map[string][]uint64{}, obligPaths: map[int]int{}}

	if nworkers > len(queue) {
		nworkers = len(queue)
	}
	if nworkers < 1 {
		nworkers = 1
	}
	stopAt := t0.Add(deadline)
	timedOut := false
	var wg sync.WaitGroup
	for wi := 0; wi < nworkers; wi++ {
		wg.Add(1)
		go func() {
			defer wg.Done()
			w, err := startWorker()
			if err != nil {
				mu.Lock()
				agg.errs = append(agg.errs, err.Error())
				mu.Unlock()
				return
			}
			defer w.stop()
			for {
				mu.Lock()
				for len(queue) == 0 && inflight > 0 {
					cond.Wait()
				}
				if len(queue) == 0 && inflight == 0 {
					mu.Unlock()
					cond.Broadcast()
					return
				}
				if time.Now().After(stopAt) {
					timedOut = true
					mu.Unlock()
					cond.Broadcast()
					return
				}
				qt := queue[len(queue)-1]
				queue = queue[:len(queue)-1]
				inflight++
				mu.Unlock()
				res, err := w.run(qt.t)
				mu.Lock()
				inflight--
				if err != nil {
					agg.errs = append(agg.errs, fmt.Sprintf("task %s%v: %v", qt.t.Harness, qt.t.Args, err))
					mu.Unlock()
					cond.Broadcast()
					// restart worker
					w.stop()
					w2, err2 := startWorker()
					if err2 != nil {
						return
					}
					w = w2
					continue
				}
				agg.tasks++
				if res.Err != "" {
					agg.errs = append(agg.errs, res.Err)
				}
				agg.paths += res.Paths
				agg.obligPaths[qt.ob] += res.Paths
				agg.completed += res.Completed
				agg.stopped += res.Stopped
				agg.panics += res.Panics
				agg.unsup += res.Unsupported
				agg.unknown += res.Unknown
				agg.asserts += res.Asserts
				agg.decisions += res.Decisions
				agg.queries += res.Queries
				agg.sat += res.Sat
				agg.unsat += res.Unsat
				agg.qunknown += res.QUnknown
				agg.solverMs += res.SolverMs
				for k, v := range res.StopReasons {
					agg.stopReasons[k] += v
				}
				for k, v := range res.PanicMsgs {
					agg.panicMsgs[k] += v
				}
				for k, v := range res.UnsupMsgs {
					agg.unsupMsgs[k] += v
				}
				for _, c := range res.Covers {
					agg.covers[c] = true
				}
				for _, f := range res.Funcs {
					agg.funcs[f] = true
				}
				if len(agg.samples) < 400 || spec.ValidateAll {
					agg.samples = append(agg.samples, res.Samples...)
				}
				for _, v := range res.Violations {
					agg.viols = append(agg.viols, violRec{ob: obligs[qt.ob], v: v})
				}
				for _, oc := range res.ObsClasses {
					m := agg.obsClasses[qt.ob]
					if m == nil {
						m = map[string]map[string][]uint64{}
						agg.obsClasses[qt.ob] = m
					}
					if m[oc.Tag] == nil {
						m[oc.Tag] = map[string][]uint64{}
					}
					if _, ok := m[oc.Tag][oc.Hex]; !ok {
						m[oc.Tag][oc.Hex] = oc.Vector
					}
				}
				for _, pf := range res.Pending {
					queue = append(queue, qtask{mkTask(qt.ob, pf), qt.ob})
				}
				mu.Unlock()
				cond.Broadcast()
			}
		}()
	}
	wg.Wait()
	exploreS := time.Since(t0).Seconds()
	leftover := len(queue)

	ntWG.Wait()
	defer nt.cleanup()
	if nt.err != nil {
		fmt.Fprintln(os.Stderr, "WARNING:", nt.err)
	}

	// ---- violations: dedupe, replay natively, classify ----
	os.MkdirAll(filepath.Join(verifDir, "replays"), 0755)
	if old, _ := filepath.Glob(filepath.Join(verifDir, "replays", id+"-*.json")); len(old) > 0 {
		for _, f := range old {
			os.Remove(f)
		}
	}
	type group struct {
		recs []violRec
	}
	groups := map[string]*group{}
	var gorder []string
	for _, vr := range agg.viols {
		key := fmt.Sprintf("%s|%v|%s", vr.ob.Harness, vr.ob.Args, vr.v.Msg)
		g := groups[key]
		if g == nil {
			g = &group{}
			groups[key] = g
			gorder = append(gorder, key)
		}
		if len(g.recs) < 3 {
			g.recs = append(g.recs, vr)
		}
	}
	sort.Strings(gorder)
	nViol, nKnown, nUnconfirmed := 0, 0, 0
	raceConfirmed, raceAttempts := map[string]int{}, 0
	knownPrinted := map[string]bool{}
	var violLines []string
	replayN := 0
	for _, key := range gorder {
		g := groups[key]
		var ins []nativeIn
		for _, vr := range g.recs {
			ins = append(ins, nativeIn{vr.ob.Harness, vr.ob.Args, vr.v.Vector, spec.Props})
		}
		confirmed := -1
		nativeOutcome := ""
		// up to 4 native attempts: Go's map iteration order and the real
		// sync.Pool are not deterministic
		if loc, isRace := raceLoc(g.recs[0].v.Msg); isRace {
			// the native witness is probabilistic and costs ~1 s: at most 3
			// confirmed reports per location and 24 attempts per check; further
			// groups at a confirmed location add nothing and are dropped
			if raceConfirmed[loc] >= 3 || raceAttempts >= 24 {
				continue
			}
			raceAttempts++
			ok, what := nt.raceConfirm(ins[0], loc)
			nativeOutcome = what
			if ok {
				confirmed = 0
				raceConfirmed[loc]++
			}
		}
		for attempt := 0; attempt < 4 && confirmed < 0 && !isRaceMsg(g.recs[0].v.Msg); attempt++ {
			// one process per vector: no state carried over between replays
			outs, err := nt.runSingles(ins)
			if err != nil {
				nativeOutcome = "native-unavailable: " + err.Error()
				break
			}
			for i, o := range outs {
				if reproduces(g.recs[i].v.Msg, o.Outcome) {
					confirmed = i
					nativeOutcome = o.Outcome
					break
				}
				nativeOutcome = o.Outcome
			}
		}
		vr := g.recs[0]
		if confirmed >= 0 {
			vr = g.recs[confirmed]
		}
		fkey := fmt.Sprintf("%s args=%v", vr.v.Msg, vr.ob.Args)
		if confirmed < 0 {
			nUnconfirmed++
			fmt.Printf("UNCONFIRMED (no alarm): %s %s native=%s\n", vr.ob.Harness, fkey, nativeOutcome)
			continue
		}
		if f := matchFinding(findings, id, vr.ob.Harness, fkey); f != nil {
			nKnown++
			if !knownPrinted[f.What] {
				knownPrinted[f.What] = true
				fmt.Printf("KNOWN-FINDING: property=%s %s\n", id, f.What)
			}
			continue
		}
		nViol++
		replayN++
		rf := replayFile{Property: id, Harness: vr.ob.Harness, Args: vr.ob.Args, Vector: vr.v.Vector, Names: vr.v.Names, Msg: vr.v.Msg, Props: spec.Props, Kind: "assert", Native: nativeOutcome}
		if _, isRace := raceLoc(vr.v.Msg); isRace {
			rf.Kind = "race"
		}
		path := filepath.Join(verifDir, "replays", fmt.Sprintf("%s-%d.json", id, replayN))
		b, _ := json.MarshalIndent(rf, "", " ")
		os.WriteFile(path, b, 0644)
		if len(violLines) < 20 {
			violLines = append(violLines, fmt.Sprintf("VIOLATION property=%s replay=%s", id, path))
			fmt.Printf("  violation: %s %s native=%s\n", vr.ob.Harness, fkey, nativeOutcome)
		}
	}

	// ---- constancy (C02): one observed value per (obligation, tag) ----
	for ob, tags := range agg.obsClasses {
		for tag, classes := range tags {
			if len(classes) < 2 {
				continue
			}
			var hexes []string
			for h := range classes {
				hexes = append(hexes, h)
			}
			sort.Strings(hexes)
			o := obligs[ob]
			ins := []nativeIn{{o.Harness, o.Args, classes[hexes[0]], spec.Props}, {o.Harness, o.Args, classes[hexes[1]], spec.Props}}
			outs, err := nt.run(ins)
			fkey := fmt.Sprintf("constancy %s args=%v", tag, o.Args)
			if err != nil || len(outs) != 2 || outs[0].Outcome != "ok" || outs[1].Outcome != "ok" || outs[0].Obs[tag] == outs[1].Obs[tag] {
				nUnconfirmed++
				fmt.Printf("UNCONFIRMED (no alarm): %s %s\n", o.Harness, fkey)
				continue
			}
			if f := matchFinding(findings, id, o.Harness, fkey); f != nil {
				nKnown++
				if !knownPrinted[f.What] {
					knownPrinted[f.What] = true
					fmt.Printf("KNOWN-FINDING: property=%s %s\n", id, f.What)
				}
				continue
			}
			nViol++
			replayN++
			rf := replayFile{Property: id, Harness: o.Harness, Args: o.Args, Vector: classes[hexes[0]], Vector2: classes[hexes[1]], Msg: fkey, Props: spec.Props, Kind: "constancy", Tag: tag,
				Native: outs[0].Obs[tag] + " vs " + outs[1].Obs[tag]}
			path := filepath.Join(verifDir, "replays", fmt.Sprintf("%s-%d.json", id, replayN))
			b, _ := json.MarshalIndent(rf, "", " ")
			os.WriteFile(path, b, 0644)
			if len(violLines) < 20 {
				violLines = append(violLines, fmt.Sprintf("VIOLATION property=%s replay=%s", id, path))
				fmt.Printf("  violation: %s %s: %s vs %s\n", o.Harness, fkey, outs[0].Obs[tag], outs[1].Obs[tag])
			}
		}
	}

	advPool := map[string]bool{}
	for _, o := range obligs {
		if o.PoolMode == 1 {
			advPool[o.Harness] = true
		}
	}
	// ---- translation validation of sampled passing paths ----
	validated, mismatched := 0, 0
	var mismatchNotes []string
	{
		var ins []nativeIn
		var ss []interp.Sample
		step := 1
		if len(agg.samples) > 200 && !spec.ValidateAll {
			step = len(agg.samples) / 200
		}
		for i := (seed%step + step) % step; i < len(agg.samples); i += step {
			s := agg.samples[i]
			if s.Outcome != "ok" {
				continue
			}
			ins = append(ins, nativeIn{s.Harness, s.Args, s.Vector, spec.Props})
			ss = append(ss, s)
		}
		outs, err := nt.run(ins)
		if err == nil {
			for i, o := range outs {
				ok := o.Outcome == "ok"
				if ok {
					for tag, hex := range ss[i].Obs {
						if advPool[ss[i].Harness] && tag != "fresh" {
							continue // outputs after an adversarial pool choice need not be what the real pool does
						}
						if o.Obs[tag] != hex {
							ok = false
						}
					}
				}
				if ok {
					validated++
				} else {
					mismatched++
					if len(mismatchNotes) < 5 {
						var diff []string
						for tag, hex := range ss[i].Obs {
							if o.Obs[tag] != hex && len(diff) < 4 {
								diff = append(diff, fmt.Sprintf("%s: engine=%s native=%s", tag, unhex(hex), unhex(o.Obs[tag])))
							}
						}
						sort.Strings(diff)
						mismatchNotes = append(mismatchNotes, fmt.Sprintf("%s%v vec=%v native-outcome=%s %v", ss[i].Harness, ss[i].Args, ss[i].Vector, o.Outcome, diff))
					}
				}
			}
		}
	}
	for _, n := range mismatchNotes {
		fmt.Println("ENGINE-NATIVE MISMATCH (no alarm):", n)
	}

	// ---- evidence ----
	var missing []string
	for _, g := range spec.Goals {
		if !agg.covers[g] {
			missing = append(missing, g)
		}
	}
	inconclusive := agg.unsup + agg.unknown + leftover + len(agg.errs)
	for k, v := range agg.stopReasons {
		if strings.Contains(k, "unknown") || strings.Contains(k, "inconclusive") {
			inconclusive += v
		}
	}
	var funcs []string
	for f := range agg.funcs {
		funcs = append(funcs, f)
	}
	sort.Strings(funcs)
	repoFuncs, stdFuncs, harnFuncs := 0, 0, 0
	var repoList []string
	for _, f := range funcs {
		switch {
		case strings.Contains(f, "redact/zzverif"):
			harnFuncs++
		case strings.Contains(f, "cockroachdb/redact"):
			repoFuncs++
			repoList = append(repoList, f)
		default:
			stdFuncs++
		}
	}
	var samplesOut []interface{}
	for i, s := range agg.samples {
		if i >= 5 {
			break
		}
		samplesOut = append(samplesOut, map[string]interface{}{"harness": s.Harness, "shape_args": s.Args, "model": s.Vector, "path_decisions": s.Path, "observed": s.Obs, "outcome": s.Outcome})
	}
	if len(samplesOut) == 0 {
		samplesOut = append(samplesOut, map[string]interface{}{"note": "no completed path"})
	}
	var covers []string
	for c := range agg.covers {
		covers = append(covers, c)
	}
	sort.Strings(covers)
	bounds := map[string]interface{}{}
	if spec.Bounds != nil {
		bounds = spec.Bounds(tier)
	}
	nontrivial := 0
	for _, n := range agg.obligPaths {
		if n > 1 {
			nontrivial++
		}
	}
	ev := map[string]interface{}{
		"property_id": id,
		"tier":        tier,
		"seed":        seed,
		"level":       "model_checking",
		"wall_s":      time.Since(t0).Seconds(),
		"violations":  nViol,
		"assumptions": append(append([]string{}, spec.Assume...), "stubs: "+strings.Join(spec.Stubs, "; "), "outside the claim: "+strings.Join(spec.Outside, "; ")),
		"coverage": map[string]interface{}{
			"states":                        maxI(agg.completed, 1),
			"transitions":                   maxI(agg.decisions, 1),
			"traces_validated_against_impl": validated,
			"samples":                       samplesOut,
			"technique":                     "bounded symbolic execution of the real go/ssa (gosym) + SMT (z3 5.1 bit-vectors); verdicts are solver verdicts over all values within the bounds",
			"obligations":                   len(obligs),
			"obligations_with_forks":        nontrivial,
			"paths":                         agg.paths,
			"paths_completed":               agg.completed,
			"paths_pruned_by_assumption":    agg.stopped,
			"paths_ended_in_panic":          agg.panics,
			"assertion_queries":             agg.asserts,
			"queries":                       map[string]int{"total": agg.queries, "sat": agg.sat, "unsat": agg.unsat, "unknown": agg.qunknown},
			"solver_s":                      agg.solverMs / 1000,
			"explore_wall_s":                exploreS,
			"inconclusive":                  inconclusive,
			"inconclusive_detail":           map[string]interface{}{"unsupported": agg.unsupMsgs, "solver_unknown": agg.unknown, "tasks_left_at_deadline": leftover, "errors": agg.errs, "deadline_hit": timedOut},
			"stop_reasons":                  agg.stopReasons,
			"panic_msgs":                    topN(agg.panicMsgs, 8),
			"cover_hit":                     covers,
			"cover_missing":                 missing,
			"bounds":                        bounds,
			"functions_encoded":             map[string]interface{}{"repo": repoFuncs, "stdlib_interpreted": stdFuncs, "harness": harnFuncs, "repo_functions": repoList},
			"native_replay":                 map[string]interface{}{"passing_paths_validated": validated, "mismatched": mismatched, "unconfirmed_models": nUnconfirmed, "known_findings_matched": nKnown},
			"evaluations":                   maxI(agg.paths, 1),
			"distinct_nontrivial":           maxI(agg.completed, 2),
			"rule":                          "one evaluation = one explored path (distinct path condition) of one obligation; every completed path has a distinct decision sequence",
			"exhaustive":                    inconclusive == 0 && !timedOut,
		},
	}
	os.MkdirAll(filepath.Join(verifDir, "evidence"), 0755)
	b, _ := json.MarshalIndent(ev, "", " ")
	os.WriteFile(filepath.Join(verifDir, "evidence", id+".json"), b, 0644)

	fmt.Printf("check %s tier=%s: obligations=%d paths=%d completed=%d pruned=%d panics=%d unsupported=%d unknown=%d queries=%d solver=%.1fs wall=%.1fs validated=%d mismatched=%d known=%d unconfirmed=%d violations=%d\n",
		id, tier, len(obligs), agg.paths, agg.completed, agg.stopped, agg.panics, agg.unsup, agg.unknown, agg.queries, agg.solverMs/1000, time.Since(t0).Seconds(), validated, mismatched, nKnown, nUnconfirmed, nViol)
	if len(missing) > 0 {
		fmt.Println("cover goals not hit:", missing)
	}
	if inconclusive > 0 {
		fmt.Printf("INCONCLUSIVE parts (reduced bound, not success): unsupported=%v leftover_tasks=%d errors=%v\n", agg.unsupMsgs, leftover, agg.errs)
	}
	if os.Getenv("GOSYM_VERBOSE") != "" {
		type kv struct{ ob, n int }
		var l []kv
		for ob, n := range agg.obligPaths {
			l = append(l, kv{ob, n})
		}
		sort.Slice(l, func(i, j int) bool { return l[i].n > l[j].n })
		for i, e := range l {
			if i >= 15 {
				break
			}
			fmt.Printf("  heavy obligation: %s%v paths=%d\n", obligs[e.ob].Harness, obligs[e.ob].Args, e.n)
		}
	}
	if len(agg.panicMsgs) > 0 && os.Getenv("GOSYM_VERBOSE") != "" {
		fmt.Println("panics:", agg.panicMsgs)
	}
	for _, l := range violLines {
		fmt.Println(l)
	}
	lastRun.validated, lastRun.mismatched, lastRun.inconclusive, lastRun.paths = validated, mismatched, inconclusive, agg.paths
	if nViol > 0 {
		return 1
	}
	return 0
}

var lastRun struct{ validated, mismatched, inconclusive, paths int }

func unhex(h string) string {
	var parts []string
	for _, part := range strings.Split(h, "|") {
		b := make([]byte, 0, len(part)/2)
		for i := 0; i+1 < len(part); i += 2 {
			v, _ := strconv.ParseUint(part[i:i+2], 16, 8)
			b = append(b, byte(v))
		}
		parts = append(parts, strconv.Quote(string(b)))
	}
	return strings.Join(parts, "|")
}

func maxI(a, b int) int {
	if a > b {
		return a
	}
	return b
}

func topN(m map[string]int, n int) map[string]int {
	type kv struct {
		k string
		v int
	}
	var l []kv
	for k, v := range m {
		l = append(l, kv{k, v})
	}
	sort.Slice(l, func(i, j int) bool { return l[i].v > l[j].v })
	out := map[string]int{}
	for i, e := range l {
		if i >= n {
			break
		}
		out[e.k] = e.v
	}
	return out
}

// reproduces: does the native outcome confirm the engine's violation?
func reproduces(msg, outcome string) bool {
	if strings.HasPrefix(msg, "PANIC ") {
		return strings.HasPrefix(outcome, "panic:")
	}
	m := msg
	if i := strings.Index(m, " site="); i >= 0 {
		m = m[:i]
	}
	return outcome == "assert:"+m
}

// ---- replay command ----

func replayMain(args []string) int {
	if len(args) < 1 {
		usage()
	}
	b, err := os.ReadFile(args[0])
	if err != nil {
		fmt.Fprintln(os.Stderr, err)
		return 2
	}
	var rf replayFile
	if err := json.Unmarshal(b, &rf); err != nil {
		fmt.Fprintln(os.Stderr, err)
		return 2
	}
	nt := buildNative()
	defer nt.cleanup()
	if nt.err != nil {
		fmt.Fprintln(os.Stderr, nt.err)
		return 2
	}
	ins := []nativeIn{{rf.Harness, rf.Args, rf.Vector, rf.Props}}
	if rf.Kind == "race" {
		loc, _ := raceLoc(rf.Msg)
		ok, what := nt.raceConfirm(ins[0], loc)
		fmt.Printf("concurrent native run (8 goroutines x 200, -race): harness=%s args=%v vector=%v: %s\n", rf.Harness, rf.Args, rf.Vector, what)
		if ok {
			fmt.Printf("VIOLATION property=%s replay=%s\n", rf.Property, args[0])
			return 1
		}
		fmt.Println("not reproduced on the current tree")
		return 0
	}
	if rf.Kind == "constancy" {
		ins = append(ins, nativeIn{rf.Harness, rf.Args, rf.Vector2, rf.Props})
	}
	outs, err := nt.run(ins)
	if err != nil {
		fmt.Fprintln(os.Stderr, err)
		return 2
	}
	for i, o := range outs {
		fmt.Printf("native run %d: harness=%s args=%v vector=%v outcome=%s obs=%v\n", i, rf.Harness, rf.Args, ins[i].Vector, o.Outcome, o.Obs)
	}
	rep := false
	if rf.Kind == "constancy" {
		rep = outs[0].Obs[rf.Tag] != outs[1].Obs[rf.Tag]
	} else {
		rep = reproduces(rf.Msg, outs[0].Outcome)
	}
	if rep {
		fmt.Printf("VIOLATION property=%s replay=%s\n", rf.Property, args[0])
		return 1
	}
	fmt.Println("not reproduced on the current tree")
	return 0
}
