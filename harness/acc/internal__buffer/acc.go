//go:build verif
// +build verif

package buffer

// VerifState is a read-only view of the buffer's hidden state.
func VerifState(b *Buffer) (validUntil int, mode int, markerOpen bool, length int, capacity int) {
	return b.validUntil, int(b.mode), b.markerOpen, len(b.buf), cap(b.buf)
}
