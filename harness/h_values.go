//go:build verif
// +build verif

package zzverif

import (
	"io"
	"errors"
	"fmt"
	"reflect"

	"github.com/cockroachdb/redact"
)

// ---- the value universe shared by the printer-level harnesses ----

type myInt int
type myStr string
type myUint uint
type myBytes []byte

type pubStruct struct {
	A string
	B int
}
type privStruct struct {
	a string
	b int
}
type mixStruct struct {
	A string
	b string
	C *pubStruct
	D interface{}
}
type numStruct struct {
	N int
	F float64
	S string
}
type ifaceStruct struct {
	X interface{}
	Y interface{}
}
type errStruct struct {
	E error
	S fmt.Stringer
}

// Stringer
type strer struct{ s string }

func (x strer) String() string { return x.s }

// pointer-receiver Stringer (nil receiver tolerated)
type pstrer struct{ s string }

func (x *pstrer) String() string {
	if x == nil {
		return "nilpstrer"
	}
	return x.s
}

// value-receiver Stringer used through a nil pointer: fmt prints <nil>
type vstrer struct{ s string }

func (x vstrer) String() string { return x.s }

// error
type myErr struct{ s string }

func (e *myErr) Error() string { return e.s }

// value-receiver error (no pointer, so no address in any rendering)
type valErr struct{ s string }

func (e valErr) Error() string { return e.s }

// nil-receiver tolerant error
type nilErr struct{ s string }

func (e *nilErr) Error() string {
	if e == nil {
		return "nilerr"
	}
	return e.s
}

// wrapping error
type wrapErr struct {
	msg string
	in  error
}

func (e *wrapErr) Error() string { return e.msg + ": " + e.in.Error() }
func (e *wrapErr) Unwrap() error { return e.in }

// enum-style Stringer
type enumStr int

var enumNames = [3]string{"zero", "one", "two"}

func (e enumStr) String() string { return enumNames[e] }

// GoStringer
type gostrer struct{ s string }

func (x gostrer) GoString() string { return "G(" + x.s + ")" }

// Formatter writing through fmt.State.Write
type fmter struct{ s string }

func (x fmter) Format(st fmt.State, verb rune) {
	st.Write([]byte("F["))
	st.Write([]byte(x.s))
	st.Write([]byte{']'})
}

// panicking methods
type panStr struct{ s string }

func (x panStr) String() string { panic(x.s) }

type panErr struct{ s string }

func (x panErr) Error() string { panic(errors.New(x.s)) }

type panFmt struct{ s string }

func (x panFmt) Format(st fmt.State, verb rune) { panic(x.s) }

type panGo struct{ s string }

func (x panGo) GoString() string { panic(x.s) }

// nil-deref panics
type derefStr struct{ p *pubStruct }

func (x derefStr) String() string { return x.p.A }

// SafeFormatter
type sfmter struct{ s string }

func (x sfmter) SafeFormat(w redact.SafePrinter, verb rune) {
	w.SafeString("SF:")
	w.UnsafeString(x.s)
	w.SafeRune('.')
}

// SafeMessager
type smsger struct{ s string }

func (x smsger) SafeMessage() string { return x.s }

// SafeValue types
type safeInt int

func (safeInt) SafeValue() {}

type safeStr string

func (safeStr) SafeValue() {}

// registered safe type
type regInt int
type regStruct struct{ A, B int }

// ---- value kinds ----

const (
	vkString = iota
	vkBytes
	vkByteArr
	vkInt
	vkUint8
	vkInt64Neg
	vkBool
	vkFloat
	vkComplex
	vkRune
	vkNil
	vkMyInt
	vkMyStr
	vkMyBytes
	vkPubStruct
	vkPrivStruct
	vkPtrPub
	vkNilPtr
	vkMixStruct
	vkSliceStr
	vkSliceInt
	vkSliceIface
	vkNilSlice
	vkArrInt
	vkMapStrInt
	vkMapIntStr
	vkMapIface
	vkStringer
	vkPStringer
	vkNilPStringer
	vkNilVStringer
	vkError
	vkNilErrPtr
	vkWrapErr
	vkGoStringer
	vkFormatter
	vkPanStr
	vkPanErr
	vkPanFmt
	vkPanGo
	vkDerefStr
	vkReflectValStr
	vkReflectValStruct
	vkIfaceStruct
	vkErrStruct
	vkUintptr
	vkPtrInt
	vkSliceBytes
	vkEmptyStruct
	vkUint64Big
	vkFloat32
	vkSliceErr
	vkMapUint64
	vkMapMyUint
	vkMapInt64Extreme
	vkMapIntNeg
	vkSliceIntFloatStr // int, then float, then string in one container
	vkStructIntFloatStr
	vkEnumStringer // Stringer indexing a table: out-of-range values panic with a runtime error that embeds the value
	vkPanThenSiblings // container: an element whose String panics, followed by siblings
	vkNilIfaceFields  // struct with nil interface-typed fields (error, interface{}) between other fields
	vkNumPrinter      // number of fmt-compatible kinds
)

// redact-specific kinds (excluded from the fmt differential)
const (
	vkSafeStr = 100 + iota
	vkSafeInt
	vkSafeWrap
	vkUnsafeWrap
	vkRedactableS
	vkRedactableB
	vkSafeFormatter
	vkSafeMessager
	vkRegInt
	vkSafeRune
	vkSliceSafe
	vkStructSafe
	vkSliceRedSafe  // pre-redactable followed by safe siblings
	vkStructRedSafe // struct: RedactableBytes field followed by a Safe() field
	vkNestedSF      // SafeFormatter that calls Printf / Print on its SafePrinter
	vkReentrantSF   // SafeFormatter that makes top-level print calls of its own while it is being printed
	vkSafeNil       // Safe(nil)
	vkUnsafeNil     // Unsafe(nil)
	vkSafeIntWrap   // Safe(int)
	vkUnsafeStrWrap // Unsafe(string)
	vkRedactableRaw // a caller-made RedactableString ending in the (arbitrary) payload bytes
	vkSafeBytesThenUnsafe // struct: a SafeValue type of byte-slice kind, a nil SafeValue map, then unsafe fields
	vkRedThenLeaves       // struct: a concretely typed RedactableString field followed by further fields
	vkSFWriteString       // SafeFormatter that emits unsafe data with io.WriteString on the printer
	vkNumRedact
)

type nilIfaceFields struct {
	A int
	E error
	S string
	I interface{}
	P *nilIfaceFields
}

type safeBytesT []byte

func (safeBytesT) SafeValue() {}

type safeMapT map[string]int

func (safeMapT) SafeValue() {}

type safeArrT [2]byte

func (safeArrT) SafeValue() {}

type safeBytesThenUnsafe struct {
	B safeBytesT
	M safeMapT
	A safeArrT
	S string
	N int
}

type redThenLeaves struct {
	R  redact.RedactableString
	S  string
	RB redact.RedactableBytes
	N  int
}

type sfWriteString struct{ s string }

func (x sfWriteString) SafeFormat(p redact.SafePrinter, verb rune) {
	p.SafeString("ws:")
	io.WriteString(p, x.s)
	p.SafeString(";")
	if sw, ok := p.(io.StringWriter); ok {
		sw.WriteString(x.s)
	}
}

// reentSF's SafeFormat builds redactable strings with top-level calls
// (the way helper functions do) in the middle of its own output.
type reentSF struct{ s string }

func (x reentSF) SafeFormat(p redact.SafePrinter, verb rune) {
	p.Printf("%s: ", x.s)
	d := redact.Sprintf("n=%d", redact.Safe(7))
	p.Print(d)
	e := redact.Sprint(x.s)
	p.SafeString(" ")
	p.Print(e)
}

// public (declared-safe) leaves of the mixed kinds; C05 makes them symbolic.
var (
	pubS = "pub‹"
	pubI = 7
)

// mkValue builds the value of the given kind with leaves s (string
// payload) and i (integer payload).
func mkValue(kind int, s string, i int) interface{} {
	switch kind {
	case vkString:
		return s
	case vkBytes:
		return []byte(s)
	case vkByteArr:
		var a [3]byte
		copy(a[:], s)
		return a
	case vkInt:
		return i
	case vkUint8:
		return uint8(i)
	case vkInt64Neg:
		return int64(-i)
	case vkBool:
		return i&1 == 1
	case vkFloat:
		return 3.5
	case vkComplex:
		return complex(1.5, -2)
	case vkRune:
		return rune(i)
	case vkNil:
		return nil
	case vkMyInt:
		return myInt(i)
	case vkMyStr:
		return myStr(s)
	case vkMyBytes:
		return myBytes(s)
	case vkPubStruct:
		return pubStruct{s, i}
	case vkPrivStruct:
		return privStruct{s, i}
	case vkPtrPub:
		return &pubStruct{s, i}
	case vkNilPtr:
		return (*pubStruct)(nil)
	case vkMixStruct:
		return mixStruct{s, s, nil, s}
	case vkSliceStr:
		return []string{s, "k"}
	case vkSliceInt:
		return []int{i, 7}
	case vkSliceIface:
		return []interface{}{s, i, nil}
	case vkNilSlice:
		return []int(nil)
	case vkArrInt:
		return [2]int{i, 3}
	case vkMapStrInt:
		return map[string]int{"b": i, "a": 2}
	case vkMapIntStr:
		return map[int]string{2: s, 1: "x"}
	case vkMapIface:
		return map[interface{}]interface{}{"k": s}
	case vkStringer:
		return strer{s}
	case vkPStringer:
		return &pstrer{s}
	case vkNilPStringer:
		return (*pstrer)(nil)
	case vkNilVStringer:
		return (*vstrer)(nil)
	case vkError:
		return &myErr{s}
	case vkNilErrPtr:
		return (*nilErr)(nil)
	case vkWrapErr:
		return &wrapErr{"w", valErr{s}}
	case vkGoStringer:
		return gostrer{s}
	case vkFormatter:
		return fmter{s}
	case vkPanStr:
		return panStr{s}
	case vkPanErr:
		return panErr{s}
	case vkPanFmt:
		return panFmt{s}
	case vkPanGo:
		return panGo{s}
	case vkDerefStr:
		return derefStr{nil}
	case vkReflectValStr:
		return reflect.ValueOf(s)
	case vkReflectValStruct:
		return reflect.ValueOf(pubStruct{s, i})
	case vkIfaceStruct:
		return ifaceStruct{s, i}
	case vkErrStruct:
		return errStruct{valErr{s}, strer{s}}
	case vkUintptr:
		return uintptr(i)
	case vkPtrInt:
		return (*int)(nil)
	case vkSliceBytes:
		return [][]byte{[]byte(s)}
	case vkEmptyStruct:
		return struct{}{}
	case vkUint64Big:
		return uint64(1<<63) + uint64(i)
	case vkFloat32:
		return float32(0.25)
	case vkSliceErr:
		return []error{valErr{s}, nil}
	case vkMapUint64:
		return map[uint64]string{uint64(1<<63) + uint64(i): s, 1: "x", 7: "y"}
	case vkMapInt64Extreme:
		return map[int64]string{-9223372036854775808: s, 1: "x", 9223372036854775807: "z"}
	case vkMapIntNeg:
		return map[int]int{-(1 << 62) - (1 << 61): 1, 1 << 62: 2, i: 3}
	case vkSliceIntFloatStr:
		return []interface{}{i, 2.5, s, complex(1, 2)}
	case vkStructIntFloatStr:
		return numStruct{i, 2.5, s}
	case vkEnumStringer:
		return enumStr(i)
	case vkMapMyUint:
		return map[myUint]int{myUint(1<<63) + myUint(i): 1, 2: 2}
	case vkPanThenSiblings:
		return []interface{}{panStr{s}, i, "x", 2.5}
	case vkNilIfaceFields:
		return nilIfaceFields{i, nil, s, nil, nil}

	case vkSafeStr:
		return redact.SafeString(s)
	case vkSafeInt:
		return redact.SafeInt(i)
	case vkSafeWrap:
		return redact.Safe(s)
	case vkUnsafeWrap:
		return redact.Unsafe(redact.SafeString(s))
	case vkRedactableS:
		return redact.Sprintf("r %s", s)
	case vkRedactableB:
		return redact.RedactableBytes(redact.Sprintf("r %s", s))
	case vkSafeFormatter:
		return sfmter{s}
	case vkSafeMessager:
		return smsger{s}
	case vkRegInt:
		return regInt(i)
	case vkSafeRune:
		return redact.SafeRune(rune(i))
	case vkSliceSafe:
		return []interface{}{redact.Safe(pubS), s, safeInt(pubI), i}
	case vkStructSafe:
		return ifaceStruct{redact.Safe(pubS), s}
	case vkSliceRedSafe:
		return []interface{}{s, redact.RedactableString("r‹e›"), redact.SafeString("sib"), safeInt(3), redact.Safe("w")}
	case vkNestedSF:
		return nestedSF{s}
	case vkStructRedSafe:
		return ifaceStruct{redact.RedactableBytes("b‹e›"), redact.Safe(pubS)}
	case vkReentrantSF:
		return reentSF{s}
	case vkSafeNil:
		return redact.Safe(nil)
	case vkUnsafeNil:
		return redact.Unsafe(nil)
	case vkSafeIntWrap:
		return redact.Safe(i)
	case vkUnsafeStrWrap:
		return redact.Unsafe(s)
	case vkRedactableRaw:
		return redact.RedactableString("r‹e›" + s)
	case vkSafeBytesThenUnsafe:
		return safeBytesThenUnsafe{safeBytesT("pb"), nil, safeArrT{'a', 'b'}, s, i}
	case vkRedThenLeaves:
		return redThenLeaves{"r‹e›", s, redact.RedactableBytes("q"), i}
	case vkSFWriteString:
		return sfWriteString{s}
	}
	panic("mkValue: bad kind")
}

// directive table
var directives = []string{
	"%v", "%+v", "%#v", "%s", "%q", "%x", "%X", "%d", "%c", "%U", "%t", "%e", "%g", "%T", "%o", "%b",
	"%5v", "%-5v|", "%05v", "%.2v", "%7.3v", "% x", "%#x", "%+d", "% d", "%+q", "%#q", "%8.3f", "%-8q|", "%08d", "%x|%X", "%3c|", "%#o", "%#U",
	"%!", "%z", "%[1]v", "%[2]v", "%[1]*v", "%.*v", "%*v", "%v %v", "%", "%-", "%.", "%[", "%[x]v", "%[0]v", "%é", "%\xe2v",
	// appended later (indices 50..): '0' with width and precision
	"%08.3v", "%06.2v", "%07.0v", "%+08.2v",
}
