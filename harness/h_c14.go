//go:build verif
// +build verif

package zzverif

import (
	"fmt"
	"math"
	"reflect"
	"strconv"

	"github.com/cockroachdb/redact"
)

// hState is a harness fmt.State with arbitrary flags.
type hState struct {
	plus, minus, sharp, space, zero bool
	wid, prec                       int
	widOK, precOK                   bool
	out                             []byte
}

func (s *hState) Write(b []byte) (int, error) { s.out = append(s.out, b...); return len(b), nil }
func (s *hState) Width() (int, bool)          { return s.wid, s.widOK }
func (s *hState) Precision() (int, bool)      { return s.prec, s.precOK }
func (s *hState) Flag(c int) bool {
	switch c {
	case '+':
		return s.plus
	case '-':
		return s.minus
	case '#':
		return s.sharp
	case ' ':
		return s.space
	case '0':
		return s.zero
	}
	return false
}

// probe records the directive it is called with.
type probeRec struct {
	called                          int
	plus, minus, sharp, space, zero bool
	wid, prec                       int
	widOK, precOK                   bool
	verb                            rune
}

type fmtProbe struct{ rec *probeRec }

func (p fmtProbe) Format(st fmt.State, verb rune) {
	r := p.rec
	r.called++
	r.plus, r.minus, r.sharp, r.space, r.zero = st.Flag('+'), st.Flag('-'), st.Flag('#'), st.Flag(' '), st.Flag('0')
	r.wid, r.widOK = st.Width()
	r.prec, r.precOK = st.Precision()
	r.verb = verb
}

var c14Widths = []int{-1, 0, 1, 7, 12, 1000}
var c14Precs = []int{-1, 0, 1, 5}
var c14MultiVerbs = []rune{'é', '世', '×'}

// H_c14: MakeFormat round trip.  p = [width idx, prec idx, verb mode]
// verb mode 0: symbolic ASCII letter; 1..3: a multi-byte verb.
// Flags are five symbolic booleans.
func H_c14(p []int) {
	var st *hState
	if len(p) > 4 && p[4] > 0 {
		// concrete flags (mask p[4]-1) and, below, a concrete verb
		m := p[4] - 1
		st = &hState{plus: m&1 != 0, minus: m&2 != 0, sharp: m&4 != 0, space: m&8 != 0, zero: m&16 != 0}
	} else {
		st = &hState{plus: vBool(), minus: vBool(), sharp: vBool(), space: vBool(), zero: vBool()}
	}
	if w := c14Widths[p[0]]; w >= 0 {
		st.wid, st.widOK = w, true
	}
	if pr := c14Precs[p[1]]; pr >= 0 {
		st.prec, st.precOK = pr, true
	}
	var verb rune
	if len(p) > 5 && p[5] > 0 {
		verb = rune(p[5])
	} else if p[2] == 0 {
		c := vByte()
		vAssume(vOr(vAnd(c >= 'a', c <= 'z'), vAnd(c >= 'A', c <= 'Z')))
		vAssume(vAnd(vAnd(c != 'T', c != 'p'), c != 'w'))
		verb = rune(c)
	} else {
		verb = c14MultiVerbs[p[2]-1]
	}
	vSite(fmt.Sprintf("width=%d prec=%d verbmode=%d", c14Widths[p[0]], c14Precs[p[1]], p[2]))
	if len(p) > 3 && p[3] > 0 {
		// an earlier MakeFormat call for a neighbouring directive (same
		// flags and verb; width / precision presence toggled)
		st0 := *st
		switch p[3] {
		case 1:
			st0.precOK, st0.prec = !st.precOK, 0
		case 2:
			st0.widOK, st0.wid = !st.widOK, 0
		case 3:
			st0.prec, st0.precOK = st.prec+1, true
		}
		_, _ = redact.MakeFormat(&st0, verb)
	}
	justV, f := redact.MakeFormat(st, verb)
	vObserve("format", []byte(f))
	noFlags := vAnd(vAnd(vAnd(vNot(st.plus), vNot(st.minus)), vAnd(vNot(st.sharp), vNot(st.space))), vNot(st.zero))
	bare := vAnd(vAnd(noFlags, verb == 'v'), !st.widOK && !st.precOK)
	vAssert(justV == bare, "C14/justV-iff-bare-v")
	// deliver the directive to a probe through both real parsers
	for pass := 0; pass < 2; pass++ {
		rec := &probeRec{}
		if pass == 0 {
			_ = fmt.Sprintf(f, fmtProbe{rec})
		} else {
			_ = redact.Sprintf(f, fmtProbe{rec})
		}
		who := "fmt"
		if pass == 1 {
			who = "redact"
		}
		vAssert(rec.called == 1, "C14/probe-called-"+who)
		if rec.called != 1 {
			continue
		}
		vAssert(rec.verb == verb, "C14/verb-"+who)
		vAssert(rec.plus == st.plus, "C14/plus-"+who)
		vAssert(rec.minus == st.minus, "C14/minus-"+who)
		vAssert(rec.sharp == st.sharp, "C14/sharp-"+who)
		vAssert(rec.space == st.space, "C14/space-"+who)
		// '0' together with '-': what Flag('0') reports changed across Go
		// releases (the fork clears it, fmt >= 1.22 keeps it); both are
		// accepted, the format string itself carries both flags
		vAssert(vOr(st.minus, rec.zero == st.zero), "C14/zero-"+who)
		vAssert(rec.widOK == st.widOK, "C14/width-present-"+who)
		if st.widOK && rec.widOK {
			vAssert(rec.wid == st.wid, "C14/width-"+who)
		}
		vAssert(rec.precOK == st.precOK, "C14/precision-present-"+who)
		if st.precOK && rec.precOK {
			vAssert(rec.prec == st.prec, "C14/precision-"+who)
		}
	}
	vCover(justV, "bare-v")
}

// forwarding formatter
type fwdFmt struct{ x interface{} }

func (w fwdFmt) Format(st fmt.State, verb rune) {
	justV, f := redact.MakeFormat(st, verb)
	if justV {
		fmt.Fprint(st, w.x)
	} else {
		fmt.Fprintf(st, f, w.x)
	}
}

func c14Operand(k int, s string) interface{} {
	switch k {
	case 0:
		return s
	case 1:
		return 42
	case 2:
		return 3.25
	case 3:
		return true
	case 4:
		return []byte(s)
	case 5:
		return pubStruct{s, 3}
	case 6:
		return uint8(200)
	case 7:
		return 'x'
	case 8:
		return complex(1, -2)
	case 9:
		return []string{s}
	case 10:
		return nil
	case 12:
		return reflect.ValueOf([]byte(s))
	case 13:
		// a reflect.Value of Kind Interface holding nil
		return reflect.ValueOf(struct{ I interface{} }{nil}).Field(0)
	case 14:
		return reflect.ValueOf([]byte(nil))
	case 11:
		// a typed nil pointer whose Format method panics on the nil
		// receiver: fmt reports <nil>, with or without a wrapper
		return (*pfmter)(nil)
	}
	if k >= 20 {
		// the general value table (methods that panic, nil receivers,
		// Stringers, errors, GoStringers, containers)
		return mkValue(k-20, s, 42)
	}
	panic("c14Operand")
}

type pfmter struct{ s string }

func (x *pfmter) Format(st fmt.State, verb rune) { st.Write([]byte("F(" + x.s + ")")) }

// H_c14w: under the standard fmt, Safe(x) and Unsafe(x) print exactly
// like x, and a forwarding formatter prints like a direct call; under
// redact's printer the forwarding formatter's text is fmt's.
// p = [width idx, prec idx, operand kind, n]
func H_c14w(p []int) {
	d := "%"
	if vBool() {
		d += "+"
	}
	if vBool() {
		d += "-"
	}
	if vBool() {
		d += "#"
	}
	if vBool() {
		d += " "
	}
	if vBool() {
		d += "0"
	}
	if w := c14Widths[p[0]]; w > 0 {
		d += strconv.Itoa(w)
	}
	if pr := c14Precs[p[1]]; pr >= 0 {
		d += "." + strconv.Itoa(pr)
	}
	c := vByte()
	vAssume(vOr(vAnd(c >= 'a', c <= 'z'), vAnd(c >= 'A', c <= 'Z')))
	vAssume(vAnd(vAnd(c != 'T', c != 'p'), c != 'w'))
	d += string([]byte{c})
	bs := vBytes(p[3])
	vAssumeValidUTF8(bs)
	s := string(bs)
	x := c14Operand(p[2], s)
	vSite(fmt.Sprintf("wrappers width=%d prec=%d operand=%d", c14Widths[p[0]], c14Precs[p[1]], p[2]))
	direct := []byte(fmt.Sprintf(d, x))
	vObserve("direct", direct)
	vAssert(bytesEq([]byte(fmt.Sprintf(d, redact.Safe(x))), direct), "C14/safe-wrapper-as-x")
	vAssert(bytesEq([]byte(fmt.Sprintf(d, redact.Unsafe(x))), direct), "C14/unsafe-wrapper-as-x")
	vAssert(bytesEq([]byte(fmt.Sprintf(d, fwdFmt{x})), direct), "C14/forwarder-as-x")
	out := []byte(redact.Sprintf(d, fwdFmt{x}))
	vAssert(bytesEq(strip(out), esc(direct)), "C14/forwarder-under-redact")
	if p[2] == 2 {
		// a forwarder that follows special float values in one container: what
		// printing them does to the printer's flags must not reach the forwarder
		for _, pre := range []interface{}{math.NaN(), math.Inf(1), -0.5} {
			direct2 := []byte(fmt.Sprintf(d, []interface{}{pre, 7}))
			out2 := []byte(redact.Sprintf(d, []interface{}{pre, fwdFmt{7}}))
			vAssert(bytesEq(strip(out2), esc(direct2)), "C14/forwarder-after-sibling")
		}
	}
	// MakeFormat on redact's own printer, before and after the SafeFormat
	// method has printed something through it
	ra, rb := &mfRec{}, &mfRec{}
	_ = redact.Sprintf(d, sfMakeFmt{ra, false})
	_ = redact.Sprintf(d, sfMakeFmt{rb, true})
	vAssert(ra.called == 1 && rb.called == 1, "C14/safeformat-called")
	vAssert(ra.justV == rb.justV && ra.f == rb.f, "C14/makeformat-unaffected-by-earlier-print")
}

type mfRec struct {
	called int
	justV  bool
	f      string
}

// sfMakeFmt calls MakeFormat on the SafePrinter it is given, optionally
// after printing a label through it.
type sfMakeFmt struct {
	rec   *mfRec
	label bool
}

func (x sfMakeFmt) SafeFormat(p redact.SafePrinter, verb rune) {
	if x.label {
		p.Printf("k%d=", 1)
		p.Print(redact.Safe("l"))
	}
	x.rec.called++
	x.rec.justV, x.rec.f = redact.MakeFormat(p, verb)
}

func init() {
	Harnesses["H_c14"] = H_c14
	Harnesses["H_c14w"] = H_c14w
}
