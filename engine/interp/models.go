package interp

// gosym environment models: sync.Pool, regexp (see regexp_model.go).

import (
	"go/token"
)

var pools map[*value][]value

// PoolReuses counts Get calls served from the free list (C12 cover goal).
var poolReuses, poolNews int

// poolAdversarial: Get may return any freed object or a new one.
var poolAdversarial bool

func resetModels(t *Task) {
	pools = map[*value][]value{}
	poolReuses, poolNews = 0, 0
	poolAdversarial = t != nil && t.PoolMode == 1
	ptrSerial = nil
	resetRegexpModel()
}

func init() {
	externals["(*sync.Pool).Get"] = func(fr *frame, args []value) value {
		p := args[0].(*value)
		l := pools[p]
		if len(l) > 0 {
			k := len(l) - 1
			if poolAdversarial {
				// adversarial: any freed object, or a new one
				c := curPC.choose(len(l) + 1)
				if c == len(l) {
					return poolNew(fr, p)
				}
				k = c
			}
			v := l[k]
			pools[p] = append(append([]value{}, l[:k]...), l[k+1:]...)
			poolReuses++
			return v
		}
		return poolNew(fr, p)
	}
	externals["(*sync.Pool).Put"] = func(fr *frame, args []value) value {
		p := args[0].(*value)
		pools[p] = append(pools[p], args[1])
		return nil
	}
}

func init() {
	externals[hname("vPoolAdversarial")] = func(fr *frame, args []value) value {
		poolAdversarial = args[0].(bool)
		return nil
	}
	externals[hname("vPoolReuses")] = func(fr *frame, args []value) value { return poolReuses }
}

func poolNew(fr *frame, p *value) value {
	poolNews++
	st := (*p).(structure)
	newFn := st[len(st)-1]
	if newFn == nil {
		return iface{}
	}
	return call(fr.i, fr, token.NoPos, newFn, nil)
}
