//go:build verif
// +build verif

package rfmt

import "reflect"

// VerifResetGlobals clears the two process-wide registries (native
// replays run many harnesses in one process; the symbolic engine starts
// every path from fresh globals).
func VerifResetGlobals() {
	redactErrorFn = nil
	safeTypeRegistry = map[reflect.Type]bool{}
}
