//go:build verif
// +build verif

package zzverif

import (
	"fmt"
	"regexp"

	"github.com/cockroachdb/redact"
)

// the library's two patterns and a run pattern, compiled by the harness:
// the Find*/Match* family of the regexp model is diffed against the host
// engine on them (RECONF)
var reconfRes = []*regexp.Regexp{
	regexp.MustCompile("‹[^‹›]*›"),
	regexp.MustCompile("[‹›]"),
	regexp.MustCompile("[‹›]+"),
	regexp.MustCompile("a*"),
}

// segment alphabet of C07: S, E, X (cross), LF, ordinary byte, partial
// marker bytes.
var reSyms = [][]byte{mS, mE, mX, {'\n'}, {'a'}, {0xE2}, {0x80}, {0xB9}}

// H_reconf: concrete strings over the C07 alphabet through the regexp
// model (engine, forced) and the host regexp (native twin).
// p = symbol indices
func H_reconf(p []int) {
	var s []byte
	for _, k := range p {
		s = append(s, reSyms[k]...)
	}
	observeMarkersAPI(s)
	for k, re := range reconfRes {
		tag := fmt.Sprintf("re%d", k)
		vObserve(tag, []byte(fmt.Sprint(re.FindAllStringIndex(string(s), -1), re.FindAllIndex(s, 2), re.FindStringIndex(string(s)), re.FindIndex(s),
			re.MatchString(string(s)), re.Match(s), re.FindAllString(string(s), -1), re.FindString(string(s)), len(re.FindAll(s, -1)))))
	}
}

func observeMarkersAPI(s []byte) {
	rs := redact.RedactableString(s)
	rb := redact.RedactableBytes(append([]byte{}, s...))
	vObserve("redact-s", []byte(rs.Redact()))
	vObserve("redact-b", []byte(rb.Redact()))
	vObserve("strip-s", []byte(rs.StripMarkers()))
	vObserve("strip-b", rb.StripMarkers())
	vObserve("escape", redact.EscapeMarkers(append([]byte{}, s...)))
}

// H_c07: k segments, each chosen from {S, E, X, LF, one free byte};
// free bytes may assemble markers with their neighbours, so ill-formed
// and partial-marker strings are included.  p = segment codes
// (0 S, 1 E, 2 X, 3 LF, 4 free byte)
func H_c07(p []int) {
	var s []byte
	for _, code := range p {
		switch code {
		case 0:
			s = append(s, mS...)
		case 1:
			s = append(s, mE...)
		case 2:
			s = append(s, mX...)
		case 3:
			s = append(s, '\n')
		default:
			s = append(s, vByte())
		}
	}
	// what the marker accessors and EscapeMarkers return belongs to the
	// caller: scribbling over it must not affect later operations
	for _, m := range [][]byte{redact.StartMarker(), redact.EndMarker(), redact.RedactedMarker(), redact.EscapeMarkers([]byte("k‹"))} {
		for j := range m {
			m[j] = '*'
		}
	}
	vAssert(bytesEq(redact.StartMarker(), mS) && bytesEq(redact.EndMarker(), mE) && bytesEq(redact.RedactedMarker(), cat(mS, mX, mE)), "C07/marker-accessors-fresh")
	s0 := append([]byte{}, s...)
	rs := redact.RedactableString(s)
	rb := redact.RedactableBytes(append([]byte{}, s...))
	red := []byte(rs.Redact())
	redB := []byte(rb.Redact())
	str := []byte(rs.StripMarkers())
	strB := rb.StripMarkers()
	vObserve("redact", red)
	vObserve("strip", str)
	// all strings
	vAssert(!hasMarker(str), "C07/strip-leaves-no-marker")
	vAssert(bytesEq(red, redB), "C07/redact-variants-agree")
	vAssert(bytesEq(str, strB), "C07/strip-variants-agree")
	red2 := []byte(redact.RedactableString(red).Redact())
	vAssert(bytesEq(red2, red), "C07/redact-idempotent")
	// the operations are functions of their input: the same call made
	// again, after other calls, gives the same result
	vAssert(bytesEq([]byte(rs.Redact()), red), "C07/redact-repeatable")
	vAssert(bytesEq([]byte(redact.RedactableBytes(append([]byte{}, s0...)).Redact()), red), "C07/redact-bytes-repeatable")
	vAssert(bytesEq([]byte(rs.StripMarkers()), str), "C07/strip-repeatable")
	// results obtained earlier are values: later calls (on other inputs) leave them alone
	_ = redact.RedactableBytes("zz‹y›zz‹yy›zz").Redact()
	_ = redact.RedactableString("ww‹y›ww").Redact()
	vAssert(bytesEq(redB, red), "C07/earlier-bytes-result-unchanged")
	vAssert(bytesEq(strB, str), "C07/earlier-bytes-result-unchanged")
	vAssert(bytesEq([]byte(rs.ToBytes()), s0), "C07/tobytes")
	vAssert(bytesEq([]byte(rb.ToString()), s0), "C07/tostring")
	vAssert(bytesEq([]byte(rs.ToBytes().ToString()), s0), "C07/roundtrip")
	if len(s0) > 0 {
		// a string obtained from the byte-slice variant is a value: it does
		// not change when the slice is reused afterwards
		scratch := append([]byte{}, s0...)
		early := redact.RedactableBytes(scratch).ToString()
		for k := range scratch {
			scratch[k] = 'Z'
		}
		vAssert(bytesEq([]byte(early), s0), "C07/tostring-is-a-copy")
		early2 := redact.RedactableString(s0).ToBytes()
		early2[0] = 'Z'
		vAssert(bytesEq([]byte(redact.RedactableString(s0)), s0), "C07/tobytes-is-a-copy")
	}
	// well-formed strings
	wf, _ := wfls(s)
	if wf {
		vAssert(bytesEq(red, redactRef(s)), "C07/redact-exact")
		w2, _ := wfls(red)
		vAssert(w2, "C07/redact-wf")
		vAssert(bytesEq(delEnv(red), delEnv(s)), "C07/redact-keeps-safe-text")
		// "removes exactly the delimiters" and "leaves no marker" can both
		// hold only if removing the delimiters does not itself assemble a
		// marker from stray partial bytes around them (never the case for a
		// string produced by the library: C10's '?' after a truncated tail);
		// otherwise only the second clause is checked (above)
		if !hasMarker(strip(s)) {
			vAssert(bytesEq(str, strip(s)), "C07/strip-exact")
		}
	}
	vCover(wf, "well-formed-input")
	vCover(!wf, "ill-formed-input")
	// EscapeMarkers (C10)
	e := redact.EscapeMarkers(append([]byte{}, s...))
	vAssert(bytesEq(e, esc(s0)), "C10/escapemarkers-ref")
	vAssert(!hasMarker(e), "C10/escapemarkers-no-marker")
	vAssert(bytesEq(redact.EscapeMarkers(append([]byte{}, e...)), e), "C10/escapemarkers-idempotent")
}

func init() {
	Harnesses["H_reconf"] = H_reconf
	Harnesses["H_c07"] = H_c07
}
