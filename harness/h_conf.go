//go:build verif
// +build verif

package zzverif

import (
	"fmt"
	"strings"

	"github.com/cockroachdb/redact"
)

func isPtrKind(kind int) bool {
	switch kind {
	case vkPtrPub, vkPStringer, vkError, vkWrapErr:
		return true
	}
	return false
}

// addrLeak: the directive would print a machine address for this kind.
func addrLeak(kind int, d string) bool {
	if !isPtrKind(kind) {
		return false
	}
	if strings.Contains(d, "p") {
		return true
	}
	for _, c := range "dobxX" {
		if strings.ContainsRune(d, c) {
			return true
		}
	}
	return false
}

func safeSprintf(d string, args ...interface{}) (out string) {
	defer func() {
		if r := recover(); r != nil {
			out = "PANICKED"
		}
	}()
	return string(redact.Sprintf(d, args...))
}

func fmtSprintf(d string, args ...interface{}) (out string) {
	defer func() {
		if r := recover(); r != nil {
			out = "PANICKED"
		}
	}()
	return fmt.Sprintf(d, args...)
}

// H_conf: engine conformance.  Concrete values through redact and the
// standard fmt; every output is observed and compared with the native
// build by the driver.  p = [kind]
func H_conf(p []int) {
	kind := p[0]
	s, i := "aé‹b", 42
	if kind == vkRune {
		i = 0x263A
	}
	v := mkValue(kind, s, i)
	for k, d := range directives {
		if addrLeak(kind, d) {
			continue
		}
		tag := fmt.Sprintf("%02d", k)
		vObserve("r"+tag, []byte(safeSprintf(d, v, 3)))
		if kind < 100 {
			vObserve("f"+tag, []byte(fmtSprintf(d, v, 3)))
		}
	}
	if !isPtrKind(kind) || true {
		vObserve("rp", []byte(func() (out string) {
			defer func() {
				if recover() != nil {
					out = "PANICKED"
				}
			}()
			return string(redact.Sprint(v, v, "x", 1, 2))
		}()))
		if kind < 100 {
			vObserve("fp", []byte(func() (out string) {
				defer func() {
					if recover() != nil {
						out = "PANICKED"
					}
				}()
				return fmt.Sprint(v, v, "x", 1, 2)
			}()))
		}
	}
}

func init() {
	Harnesses["H_conf"] = H_conf
	resetFns = append(resetFns, func() {})
}
