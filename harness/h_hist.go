//go:build verif
// +build verif

package zzverif

import (
	"fmt"
	"github.com/cockroachdb/redact"
	ifc "github.com/cockroachdb/redact/interfaces"
	"github.com/cockroachdb/redact/internal/buffer"
)

// SafeWriter operation codes of the history harnesses.
const (
	opSafeString = iota
	opUnsafeString
	opSafeRune
	opUnsafeRune
	opSafeByte
	opUnsafeByte
	opSafeBytes
	opUnsafeBytes
	opWrite
	opWriteString
	opWriteByte
	opWriteRune
	opSafeInt
	opSafeUint
	opSafeFloat
	opPrintStr
	opPrintfStr
	opPrintSafe
	opPrintRedactable
	opPrintfFlags // Printf whose last verb carries width/precision/flags
	opPrintfNoArgs // Printf with directives but no operands
	opSafeUintBig  // SafeUint above the int64 range
	nOps
)

// opRec is one call of a script with its (symbolic) payload.
type opRec struct {
	code int
	bs   []byte // string / bytes payload
	r    rune
	b    byte
	i    int
}

// mkOp draws the payload of an operation.  n = payload length for
// string/bytes payloads.
func mkOp(code, n int) opRec {
	o := opRec{code: code}
	switch code {
	case opSafeString, opUnsafeString, opSafeBytes, opUnsafeBytes, opWrite, opWriteString, opPrintStr, opPrintfStr, opPrintSafe, opPrintfFlags:
		if n >= 1000 {
			// a long concrete prefix (the buffer's storage is reallocated at
			// 64 bytes and at each doubling), then one symbolic byte
			o.bs = make([]byte, n-1000)
			for j := range o.bs {
				o.bs[j] = 'x'
			}
			o.bs = append(o.bs, vByte())
		} else if n >= 100 {
			// payload template (see payloadTemplates in h_escape.go)
			o.bs = templatePayload(payloadTemplates[n-100])
		} else {
			o.bs = vBytes(n)
		}
	case opSafeRune, opUnsafeRune, opWriteRune:
		o.r = vRune()
	case opSafeByte, opUnsafeByte, opWriteByte:
		o.b = vByte()
	case opSafeUintBig:
		o.i = 7 // (concrete: the decimal conversion of a symbolic 64-bit value is slow to decide)
	case opSafeInt, opSafeUint:
		o.i = vInt()
		vAssume(o.i >= 0)
		vAssume(o.i <= 99)
	case opPrintRedactable:
		o.bs = vFragment(3) // a S b E
	}
	return o
}

// isSafeOp: the payload is declared safe.
func isSafeOp(code int) bool {
	switch code {
	case opSafeString, opSafeRune, opSafeByte, opSafeBytes, opSafeInt, opSafeUint, opSafeFloat, opPrintSafe, opPrintfNoArgs, opSafeUintBig:
		return true
	}
	return false
}

func bigUintText(i int) []byte {
	return cat([]byte("184467440737095515"), []byte{byte('0' + i/10), byte('0' + i%10)})
}

func itoa(i int) []byte {
	if i == 0 {
		return []byte{'0'}
	}
	var b []byte
	for i > 0 {
		b = append([]byte{byte('0' + i%10)}, b...)
		i /= 10
	}
	return b
}

// runeBytes is the reference UTF-8 encoding for a valid rune.
func runeBytes(r rune) []byte {
	switch {
	case r < 0x80:
		return []byte{byte(r)}
	case r < 0x800:
		return []byte{0xC0 | byte(r>>6), 0x80 | byte(r)&0x3F}
	case r < 0x10000:
		return []byte{0xE0 | byte(r>>12), 0x80 | byte(r>>6)&0x3F, 0x80 | byte(r)&0x3F}
	}
	return []byte{0xF0 | byte(r>>18), 0x80 | byte(r>>12)&0x3F, 0x80 | byte(r>>6)&0x3F, 0x80 | byte(r)&0x3F}
}

func validRune(r rune) bool {
	return vAnd(vAnd(r >= 0, r <= 0x10FFFF), vOr(r < 0xD800, r > 0xDFFF))
}

// payloadText is what the operation contributes to the stripped text
// (before marker escaping), valid says whether the payload is in the
// class for which the two equalities are claimed.
func (o opRec) payloadText() (text []byte, valid bool) {
	switch o.code {
	case opSafeString, opUnsafeString, opSafeBytes, opUnsafeBytes, opWrite, opWriteString, opPrintStr, opPrintSafe:
		return o.bs, validUTF8(o.bs)
	case opPrintfStr:
		return cat([]byte("l"), o.bs, []byte("l‹")), validUTF8(o.bs)
	case opPrintfFlags:
		return cat([]byte("k"), o.bs, []byte(":+1.50|007/")), validUTF8(o.bs)
	case opSafeRune, opUnsafeRune, opWriteRune:
		if !validRune(o.r) {
			return nil, false
		}
		return runeBytes(o.r), true
	case opSafeByte, opUnsafeByte, opWriteByte:
		return []byte{o.b}, o.b < 0x80
	case opSafeInt, opSafeUint:
		return itoa(o.i), true
	case opSafeFloat:
		return []byte("1.5"), true
	case opPrintRedactable:
		return strip(o.bs), true
	case opPrintfNoArgs:
		return []byte("l%l %!d(MISSING)"), true
	case opSafeUintBig:
		// 18446744073709551500 + i, i in 0..99
		return bigUintText(o.i), true
	}
	panic("bad op")
}

// safeText is what the operation contributes outside envelopes.
func (o opRec) safeText(text []byte) []byte {
	switch o.code {
	case opPrintfStr:
		return cat([]byte("l"), nlOf(o.bs), []byte("l?"))
	case opPrintfFlags:
		return cat([]byte("k"), nlOf(o.bs), []byte(":|/"))
	case opPrintRedactable:
		return delEnv(o.bs)
	}
	if isSafeOp(o.code) {
		return esc(text)
	}
	return nlOf(text)
}

// applySW runs the operation on a SafeWriter (StringBuilder or SafePrinter).
func applySW(w redact.SafeWriter, o opRec) {
	switch o.code {
	case opSafeString:
		w.SafeString(redact.SafeString(o.bs))
	case opUnsafeString:
		w.UnsafeString(string(o.bs))
	case opSafeRune:
		w.SafeRune(redact.SafeRune(o.r))
	case opUnsafeRune:
		w.UnsafeRune(o.r)
	case opSafeByte:
		w.SafeByte(ifc.SafeByte(o.b))
	case opUnsafeByte:
		w.UnsafeByte(o.b)
	case opSafeBytes:
		w.SafeBytes(ifc.SafeBytes(o.bs))
	case opUnsafeBytes:
		w.UnsafeBytes(o.bs)
	case opSafeInt:
		w.SafeInt(redact.SafeInt(o.i))
	case opSafeUint:
		w.SafeUint(redact.SafeUint(o.i))
	case opSafeFloat:
		w.SafeFloat(1.5)
	case opPrintStr:
		w.Print(string(o.bs))
	case opPrintfStr:
		w.Printf("l%sl‹", string(o.bs))
	case opPrintSafe:
		w.Print(redact.Safe(string(o.bs)))
	case opPrintRedactable:
		w.Print(redact.RedactableString(o.bs))
	case opPrintfFlags:
		w.Printf("k%s:%+.2f|%03d/", string(o.bs), 1.5, 7)
	case opPrintfNoArgs:
		w.Printf("l%%l %d")
	case opSafeUintBig:
		w.SafeUint(redact.SafeUint(uint64(18446744073709551500) + uint64(o.i)))
	default:
		panic("applySW: op")
	}
}

type ioSide interface {
	Write([]byte) (int, error)
}

// applyIO runs the io.Writer-side operations (unsafe by contract).
func applyBuilder(b *redact.StringBuilder, o opRec) {
	switch o.code {
	case opWrite:
		b.Write(o.bs)
	case opWriteString:
		b.WriteString(string(o.bs))
	case opWriteByte:
		b.WriteByte(o.b)
	case opWriteRune:
		b.WriteRune(o.r)
	default:
		applySW(b, o)
	}
}

func applyPrinter(w redact.SafePrinter, o opRec) {
	switch o.code {
	case opWrite, opWriteString:
		w.Write(o.bs)
	case opWriteByte:
		w.Write([]byte{o.b})
	case opWriteRune:
		w.UnsafeRune(o.r)
	default:
		applySW(w, o)
	}
}

// applyManual maps the script onto a ManualBuffer: SetMode + raw writes.
func applyManual(b *redact.ManualBuffer, o opRec) {
	switch o.code {
	case opSafeString:
		b.SetMode(buffer.SafeEscaped)
		b.WriteString(string(o.bs))
	case opSafeBytes:
		b.SetMode(buffer.SafeEscaped)
		b.Write(o.bs)
	case opUnsafeString, opWriteString:
		b.SetMode(buffer.UnsafeEscaped)
		b.WriteString(string(o.bs))
	case opUnsafeBytes, opWrite:
		b.SetMode(buffer.UnsafeEscaped)
		b.Write(o.bs)
	case opSafeRune:
		b.SetMode(buffer.SafeEscaped)
		b.WriteRune(o.r)
	case opUnsafeRune, opWriteRune:
		b.SetMode(buffer.UnsafeEscaped)
		b.WriteRune(o.r)
	case opSafeByte:
		b.SetMode(buffer.SafeEscaped)
		b.WriteByte(o.b)
	case opUnsafeByte, opWriteByte:
		b.SetMode(buffer.UnsafeEscaped)
		b.WriteByte(o.b)
	case opSafeInt, opSafeUint:
		b.SetMode(buffer.SafeEscaped)
		b.Write(itoa(o.i))
	case opPrintfNoArgs:
		b.SetMode(buffer.SafeEscaped)
		b.WriteString("l%l %!d(MISSING)")
	case opSafeUintBig:
		b.SetMode(buffer.SafeEscaped)
		b.Write(bigUintText(o.i))
	case opSafeFloat:
		b.SetMode(buffer.SafeEscaped)
		b.WriteString("1.5")
	case opPrintStr:
		b.SetMode(buffer.UnsafeEscaped)
		b.WriteString(string(o.bs))
	case opPrintfStr:
		b.SetMode(buffer.SafeEscaped)
		b.WriteString("l")
		b.SetMode(buffer.UnsafeEscaped)
		b.WriteString(string(o.bs))
		b.SetMode(buffer.SafeEscaped)
		b.WriteString("l‹")
	case opPrintSafe:
		b.SetMode(buffer.SafeEscaped)
		b.WriteString(string(o.bs))
	case opPrintRedactable:
		b.SetMode(buffer.SafeRaw)
		b.Write(o.bs)
	case opPrintfFlags:
		b.SetMode(buffer.SafeEscaped)
		b.WriteString("k")
		b.SetMode(buffer.UnsafeEscaped)
		b.WriteString(string(o.bs))
		b.SetMode(buffer.SafeEscaped)
		b.WriteString(":")
		b.SetMode(buffer.UnsafeEscaped)
		b.WriteString("+1.50")
		b.SetMode(buffer.SafeEscaped)
		b.WriteString("|")
		b.SetMode(buffer.UnsafeEscaped)
		b.WriteString("007")
		b.SetMode(buffer.SafeEscaped)
		b.WriteString("/")
	}
}

// H_hist: histories of SafeWriter calls on the three implementations.
// p = [payload length, op1, op2, ...]
//
// Asserted: C01 wf, C03 line safety (arbitrary payloads); C09 the two
// equalities (payloads in the valid class), agreement of the three
// implementations modulo merging; C13 Len; C11 no panic (the driver
// treats a panic at the top as a violation for C11 only).
func H_hist(p []int) {
	n := p[0]
	ops := make([]opRec, 0, len(p)-1)
	for _, code := range p[1:] {
		ops = append(ops, mkOp(code, n))
	}
	site := "ops="
	for _, code := range p[1:] {
		site += string(rune('A' + code))
	}
	vSite(site)
	runHistory(ops)
}

// runHistory runs a script on the three implementations and asserts
// the C01/C03/C09/C13 conditions.
func runHistory(ops []opRec) {
	// reference
	var A, D []byte
	valid := true
	for _, o := range ops {
		t, ok := o.payloadText()
		if !ok {
			valid = false
			break
		}
		A = append(A, esc(t)...)
		D = append(D, o.safeText(t)...)
	}

	// 1. StringBuilder
	var sb redact.StringBuilder
	for _, o := range ops {
		applyBuilder(&sb, o)
	}
	o1 := []byte(sb.RedactableString())
	vObserve("builder", o1)
	vAssert(sb.Len() == len(o1), "C13/len")
	checkOut(o1, A, D, valid, "builder")

	// 2. SafePrinter through Sprintfn
	o2 := []byte(redact.Sprintfn(func(w redact.SafePrinter) {
		for _, o := range ops {
			applyPrinter(w, o)
		}
	}))
	vObserve("printer", o2)
	checkOut(o2, A, D, valid, "printer")

	// 3. ManualBuffer
	var mb redact.ManualBuffer
	for _, o := range ops {
		applyManual(&mb, o)
	}
	o3 := []byte(mb.RedactableString())
	vObserve("manual", o3)
	checkOut(o3, A, D, valid, "manual")

	if valid {
		m1, m2, m3 := mergeAdj(o1), mergeAdj(o2), mergeAdj(o3)
		vAssert(bytesEq(m1, m2), "C09/agree-builder-printer")
		vAssert(bytesEq(m1, m3), "C09/agree-builder-manual")
	}
	vCover(valid, "valid-payloads")
	vCover(hasMarker(A) || true, "ran")
}

func checkOut(out, A, D []byte, valid bool, who string) {
	wf, ls := wfls(out)
	vAssert(wf, "C01/wf-"+who)
	vAssert(wf, "C09/wf-"+who)
	vAssert(ls, "C03/lineSafe-"+who)
	if vProp("C03") {
		vAssert(linesWF(out), "C03/each-line-wf-"+who)
	}
	vAssert(ls, "C09/lineSafe-"+who)
	if valid {
		vAssert(bytesEq(strip(out), A), "C09/strip-"+who)
		if wf {
			vAssert(bytesEq(delEnv(out), D), "C09/delenv-"+who)
		}
	}
}

func init() {
	Harnesses["H_hist"] = H_hist
	Harnesses["H_hist2"] = H_hist2
}

// H_hist2: like H_hist but every operation has its own payload length:
// p = [n1, op1, n2, op2, ...].  Used for scripts mixing empty and
// non-empty payloads.
func H_hist2(p []int) {
	var q []int
	var ops []opRec
	site := "ops="
	for k := 0; k+1 < len(p); k += 2 {
		ops = append(ops, mkOp(p[k+1], p[k]))
		site += string(rune('A'+p[k+1])) + string(rune('0'+p[k]))
		q = append(q, p[k+1])
	}
	vSite(site)
	runHistory(ops)
}

// H_histp: an unrelated earlier call (c12History) first, then a script:
// p = [prelude, n, op1, op2, ...]; run with the adversarial pool.
func H_histp(p []int) {
	c12History(p[0], "h")
	n := p[1]
	var ops []opRec
	site := fmt.Sprintf("prelude=%d ops=", p[0])
	for _, code := range p[2:] {
		ops = append(ops, mkOp(code, n))
		site += string(rune('A' + code))
	}
	vSite(site)
	runHistory(ops)
}

func init() { Harnesses["H_histp"] = H_histp }
