package main

func selftestMain(args []string) int { return 0 }
