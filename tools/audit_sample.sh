#!/bin/bash
# audit_sample.sh: re-decide the solver sessions of a sample of obligations with cvc5
# (gosym audit) and append the outcome to /verif/audit/RESULTS.md.
cd /verif; mkdir -p audit
out=audit/RESULTS.md
echo "# Cross-solver audit (z3 5.1.0 verdicts re-decided by cvc5 1.0 --incremental)" > $out
echo "" >> $out
echo "Run by tools/audit_sample.sh on $(date -u +%F) against /repo $(git -C /repo log --format=%h -1)." >> $out
echo "" >> $out
while read -r line; do
  [ -z "$line" ] && continue
  rm -f /tmp/audlog.*
  GOSYM_HARNESS=${GOSYM_HARNESS:-/verif/harness} GOSYM_SMTLOG=/tmp/audlog ${GOSYM_BIN:-./bin/gosym} run $line > /tmp/audrun.txt 2>&1
  f=$(ls /tmp/audlog.* 2>/dev/null | head -1)
  res=$(timeout 1500 ${GOSYM_BIN:-./bin/gosym} audit $f 4000 2>&1 | tail -1)
  echo "- \`$line\`: $(tail -1 /tmp/audrun.txt | cut -c1-60) — $res" >> $out
done <<'LIST'
H_escape 0 3 0 -1
H_escape 2 0 0 -1 12
H_escbytes 3 0
H_hist 2 1 0
H_hist2 104 1 1 5
H_step 2 0 1 3 1
H_c13 0 3 1 1 1 0
H_c04 0 4 2
H_c04 14 1 1
H_c02 27 3 2 0
H_c02m 114 1 114 1
H_c05 0 2 1 0 0 2 0
H_c06 21 0 0 1
H_c07 4 0 4 1
H_c08 3 0 2
H_c14 3 2 0
H_c15 1 2 0 0 0 2
H_c16 0 3 1 1 0
H_c17 0 0 0 1 1 0
H_c12 8 1 0
H_fmtbytes 2 0
H_c11p 6 0 1
LIST
rm -f /tmp/audlog.* /tmp/audrun.txt
cat $out
