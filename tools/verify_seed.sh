#!/bin/bash
# verify_seed.sh <seed-id>: confirm a seeded change in a scratch worktree:
# applies, existing suite passes, demo fails with it and passes without it.
set -u
id=$1
S=${SEEDDIR:-/verif/seeded}/$id
export GOFLAGS=-mod=mod GOPROXY=off GOSUMDB=off GOTOOLCHAIN=local
W=$(mktemp -d /tmp/seedverify-XXXXXX)
rmdir $W
git -C /repo worktree add --detach $W HEAD >/dev/null 2>&1 || { echo "$id: worktree failed"; exit 2; }
trap 'git -C /repo worktree remove --force $W >/dev/null 2>&1; rm -rf $W' EXIT
cd $W
pkgdir=$(python3 -c "import json;print(json.load(open('$S/meta.json')).get('demo_pkg_dir','.'))")
[ -z "$pkgdir" ] && pkgdir=.
git apply $S/patch.diff || { echo "$id: patch does not apply"; exit 1; }
suite=$(go test -vet=off -count=1 ./... 2>&1); rc=$?
[ $rc -ne 0 ] && { echo "$id: FAIL suite does not pass with patch"; echo "$suite" | tail -5; exit 1; }
cp $S/demo_test.go $pkgdir/zz_seed_demo_test.go
with=$(cd $pkgdir && go test -vet=off -count=1 -run 'TestSeedDemo$' . 2>&1); rcw=$?
rm $pkgdir/zz_seed_demo_test.go
git checkout -- . 
cp $S/demo_test.go $pkgdir/zz_seed_demo_test.go
without=$(cd $pkgdir && go test -vet=off -count=1 -run 'TestSeedDemo$' . 2>&1); rco=$?
rm $pkgdir/zz_seed_demo_test.go
if [ $rcw -ne 0 ] && [ $rco -eq 0 ]; then echo "$id: OK (suite passes, demo fails with patch, passes without)"; exit 0; fi
echo "$id: FAIL demo rc with=$rcw without=$rco"; echo "$with" | tail -5; echo "$without" | tail -3; exit 1
