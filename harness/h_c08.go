//go:build verif
// +build verif

package zzverif

import (
	"fmt"
	"reflect"
	"strings"

	"github.com/cockroachdb/redact"
)

// vRedactable returns a symbolic well-formed, line-safe redactable
// without truncated tail: the class of strings obtainable from the
// library (C01/C03/C10).  Shapes are those of vFragment.
func vRedactable(shape int) []byte {
	if shape == 9 {
		return []byte("k‹v›")
	}
	return vFragment(shape)
}

type rsField struct{ R redact.RedactableString }
type rsPriv struct{ r redact.RedactableString }
type rbField struct{ R redact.RedactableBytes }

// container wraps r; kind selects the container.
func containerOf(kind int, r []byte) interface{} {
	rs := redact.RedactableString(r)
	switch kind {
	case 0:
		return rs
	case 1:
		return redact.RedactableBytes(r)
	case 2:
		return []interface{}{rs}
	case 3:
		return []redact.RedactableString{rs}
	case 4:
		return map[string]redact.RedactableString{"k": rs}
	case 5:
		return rsField{rs}
	case 6:
		return rsPriv{rs}
	case 7:
		return &rsField{rs}
	case 8:
		return reflect.ValueOf(rs)
	case 9:
		return rbField{redact.RedactableBytes(r)}
	case 10:
		return map[redact.RedactableString]int{rs: 1}
	case 11:
		return [1]redact.RedactableString{rs}
	// reflect.Value operands reached through struct fields: the one from an
	// unexported field cannot be interfaced
	case 12:
		return reflect.ValueOf(rsPriv{rs}).Field(0)
	case 13:
		return reflect.ValueOf(rbPriv{redact.RedactableBytes(r)}).Field(0)
	case 14:
		return reflect.ValueOf(rbField{redact.RedactableBytes(r)}).Field(0)
	}
	panic("containerOf")
}

type rbPriv struct{ r redact.RedactableBytes }

const nContainers = 15

// H_c08: re-printing a redactable is the identity, in every container
// and under every directive.  The surrounding text is obtained from two
// concrete probes (empty redactable and "Z").
// p = [fragment shape, directive, container]
func H_c08(p []int) {
	shape, di, ck := p[0], p[1], p[2]
	d := directives[di]
	if strings.ContainsAny(d, "Tp") || (ck == 7 && strings.ContainsAny(d, "dobxXcU")) {
		return // %T / %p excluded by the property; addresses
	}
	if ck >= 2 && strings.Contains(d, "w") {
		return
	}
	if ck == 10 && shape != 9 {
		// a symbolic map key is not modelled: the key is the concrete
		// redactable "k‹v›" in this container
		shape = 9
	}
	vSite(fmt.Sprintf("container=%d dir=%q", ck, d))
	if len(p) > 3 && p[3] > 0 {
		c12History(p[3]-1, "h") // an unrelated earlier call (recycled printers)
	}
	r := vRedactable(shape)
	out := []byte(redact.Sprintf(d, containerOf(ck, r), 3))
	vObserve("out", out)
	// probes
	p0 := []byte(redact.Sprintf(d, containerOf(ck, nil), 3))
	pz := []byte(redact.Sprintf(d, containerOf(ck, []byte("Z")), 3))
	// find the split: p0 = P+S, pz = P+"Z"+S
	split := -1
	if len(pz) == len(p0)+1 {
		for k := 0; k <= len(p0); k++ {
			if string(pz[:k]) == string(p0[:k]) && pz[k] == 'Z' && string(pz[k+1:]) == string(p0[k:]) {
				split = k
				break
			}
		}
	}
	if split < 0 {
		// the directive does not print the operand at all (e.g. %[2]v) or
		// prints it twice: identical treatment is still required
		vAssert(len(pz) != len(p0) || bytesEq(out, p0), "C08/operand-not-printed")
		return
	}
	want := cat(p0[:split], r, p0[split:])
	vAssert(bytesEq(out, want), "C08/reprint-identity")
	vCover(len(r) > 0, "nonempty-redactable")
}

// H_c08j: Sprint / Sprintf / Join / JoinTo of redactables is
// concatenation.  p = [shape1, shape2, variant]
func H_c08j(p []int) {
	r1, r2 := vRedactable(p[0]), vRedactable(p[1])
	rs1, rs2 := redact.RedactableString(r1), redact.RedactableString(r2)
	vSite(fmt.Sprintf("variant=%d", p[2]))
	var out, want []byte
	switch p[2] {
	case 0:
		out = []byte(redact.Sprint(rs1))
		want = r1
	case 1:
		out = []byte(redact.Sprintf("a%sb%vc‹", rs1, redact.RedactableBytes(r2)))
		want = cat([]byte("a"), r1, []byte("b"), r2, []byte("c?"))
	case 2:
		out = []byte(redact.Join(rs2, []redact.RedactableString{rs1, rs1, rs2}))
		want = cat(r1, r2, r1, r2, r2)
	case 3:
		out = []byte(redact.Sprintfn(func(w redact.SafePrinter) {
			redact.JoinTo(w, rs2, []redact.RedactableString{rs1, rs2})
		}))
		want = cat(r1, r2, r2)
	case 4:
		out = []byte(redact.Sprint(redact.Sprint(rs1, rs2)))
		want = []byte(redact.Sprint(rs1, rs2))
	case 5:
		var b redact.StringBuilder
		redact.JoinTo(&b, rs2, []interface{}{rs1, redact.Safe("s"), rs1})
		out = []byte(b.RedactableString())
		want = cat(r1, r2, []byte("s"), r2, r1)
	case 6:
		out = []byte(redact.Join(rs2, []redact.RedactableString{rs1}))
		want = r1
	case 7:
		out = []byte(redact.Sprint(rs1, rs2))
		want = cat(r1, r2) // Sprint adds no space between string-kinded operands
	case 8:
		// empty delimiter, byte-slice redactables
		var b redact.StringBuilder
		redact.JoinTo(&b, "", []redact.RedactableBytes{redact.RedactableBytes(r1), redact.RedactableBytes(r2), redact.RedactableBytes(r1)})
		out = []byte(b.RedactableString())
		want = cat(r1, r2, r1)
	case 9:
		out = []byte(redact.Sprintfn(func(w redact.SafePrinter) {
			redact.JoinTo(w, "", []interface{}{redact.RedactableBytes(r1), redact.RedactableBytes(r2), rs1})
		}))
		want = cat(r1, r2, r1)
	case 10:
		out = []byte(redact.Join("", []redact.RedactableString{rs1, rs2, rs1}))
		want = cat(r1, r2, r1)
	case 12:
		// a nested wrapper earlier in the same call
		out = []byte(redact.Sprint(redact.Unsafe(redact.Safe("w")), rs1, redact.Safe(redact.Safe("v")), rs2))
		want = cat([]byte("‹w›"), r1, []byte("v"), r2)
	case 13:
		// SortStrings orders the slice bytewise and keeps its elements
		l := []redact.RedactableString{rs1, rs2, rs1}
		redact.SortStrings(l)
		vAssert(string(l[0]) <= string(l[1]) && string(l[1]) <= string(l[2]), "C08/sortstrings-sorted")
		out = []byte(redact.Join("|", l))
		if string(rs1) <= string(rs2) {
			want = cat(r1, []byte("|"), r1, []byte("|"), r2)
		} else {
			want = cat(r2, []byte("|"), r1, []byte("|"), r1)
		}
	case 11:
		// delimiter of byte-slice kind next to byte-slice elements
		var b redact.StringBuilder
		redact.JoinTo(&b, rs2, []redact.RedactableBytes{redact.RedactableBytes(r1), redact.RedactableBytes(r1)})
		out = []byte(b.RedactableString())
		want = cat(r1, r2, r1)
	}
	vObserve("out", out)
	vAssert(bytesEq(out, want), "C08/composition")
	// Redact and StripMarkers distribute
	vAssert(bytesEq(redactRef(out), redactRef(want)), "C08/redact-distributes")
}

// H_join: Join / JoinTo accept every operand (C11) and join by plain
// concatenation.  p = [operand kind, n]
func H_join(p []int) {
	kind := p[0]
	delim := redact.RedactableString("‹d›,")
	vSite(fmt.Sprintf("join operand=%d", kind))
	var b redact.StringBuilder
	s := string(vBytes(p[1]))
	var want []byte
	es := cat(mS, refEscapeBody([]byte(s), true), mE)
	switch kind {
	case 0:
		out := redact.Join(delim, nil)
		vAssert(len(out) == 0, "C08/join-empty")
		vAssert(len(redact.Join(delim, []redact.RedactableString{})) == 0, "C08/join-empty")
		return
	case 1:
		redact.JoinTo(&b, delim, []string{s, "x"})
		want = cat(es, []byte(delim), []byte("‹x›"))
	case 2:
		redact.JoinTo(&b, delim, []int{1, 2})
		want = []byte("‹1›‹d›,‹2›")
	case 3:
		redact.JoinTo(&b, delim, []interface{}{})
	case 4:
		redact.JoinTo(&b, delim, 3)
		want = []byte("‹3›")
	case 5:
		redact.JoinTo(&b, delim, nil)
		want = []byte("<nil>")
	case 6:
		redact.JoinTo(&b, delim, s)
		want = es
	case 7:
		redact.JoinTo(&b, delim, [2]int{1, 2})
		want = []byte("[‹1› ‹2›]")
	case 8:
		redact.JoinTo(&b, delim, []redact.RedactableString(nil))
	case 9:
		redact.JoinTo(&b, delim, map[string]int{"a": 1})
		want = []byte("map[‹a›:‹1›]")
	case 10:
		redact.JoinTo(&b, delim, (*int)(nil))
		want = []byte("‹<nil>›")
	case 11:
		redact.JoinTo(&b, delim, pubStruct{s, 1})
		want = cat([]byte("{"), es, []byte(" ‹1›}"))
	}
	out := []byte(b.RedactableString())
	vObserve("out", out)
	wf, ls := wfls(out)
	vAssert(wf, "C01/wf")
	vAssert(ls, "C03/lineSafe")
	if vProp("C03") {
		vAssert(linesWF(out), "C03/each-line-wf")
	}
	if validUTF8([]byte(s)) {
		vAssert(bytesEq(mergeAdj(out), mergeAdj(want)), "C11/join-renders-operand")
	}
}

func init() {
	Harnesses["H_c08"] = H_c08
	Harnesses["H_c08j"] = H_c08j
	Harnesses["H_join"] = H_join
}
