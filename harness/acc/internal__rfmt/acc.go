//go:build verif
// +build verif

package rfmt

import (
	"reflect"
	"sync"
)

// VerifResetGlobals clears the two process-wide registries (native
// replays run many harnesses in one process; the symbolic engine starts
// every path from fresh globals).
func VerifResetGlobals() {
	redactErrorFn = nil
	safeTypeRegistry = map[reflect.Type]bool{}
	// a fresh printer pool: no state carried over from earlier replays
	ppFree = sync.Pool{New: ppFree.New}
}
