//go:build verif
// +build verif

package zzverif

import (
	"fmt"
	"strings"

	"github.com/cockroachdb/redact"
)

// H_vals: every value kind (fmt-compatible and redact-specific) under
// every directive with arbitrary (not necessarily valid UTF-8) string
// leaves: the output is well-formed and line-safe and the call does not
// panic.  p = [kind, directive, n]
func H_vals(p []int) {
	kind, di, n := p[0], p[1], p[2]
	d := directives[di]
	if addrLeak(kind, d) {
		return
	}
	s, i := symLeaves(-1, n, false) // string leaf symbolic, int leaf concrete
	if kind == vkRune || kind == vkSafeRune {
		i = 0x2039 // the start marker as a rune
	}
	if len(p) > 3 {
		// integer leaves that are markers or the line feed as code points
		i = []int{42, 0x2039, 0x203A, 10}[p[3]]
	}
	_ = strings.Contains
	vSite(fmt.Sprintf("kind=%d dir=%q", kind, d))
	v := mkValue(kind, s, i)
	r := catchRedact(func() redact.RedactableString { return redact.Sprintf(d, v, 3) })
	vAssert(!r.panicked, "C11/no-panic")
	if r.panicked {
		return
	}
	out := []byte(r.out)
	vObserve("out", out)
	wf, ls := wfls(out)
	vAssert(wf, "C01/wf")
	vAssert(ls, "C03/lineSafe")
	if vProp("C03") {
		vAssert(linesWF(out), "C03/each-line-wf")
	}
	if wf {
		// per-line redaction == whole redaction (C03, second sentence)
		if vProp("C03") {
			vAssert(bytesEq(redactRef(out), redactLines(out)), "C03/per-line-redact")
		}
	}
	// the Print family (operand spacing looks at the operands' types)
	r2 := catchRedact(func() redact.RedactableString { return redact.Sprint(mkValue(kind, s, i), 3, mkValue(kind, s, i)) })
	vAssert(!r2.panicked, "C11/no-panic")
	if !r2.panicked {
		out2 := []byte(r2.out)
		wf2, ls2 := wfls(out2)
		vAssert(wf2, "C01/wf")
		vAssert(ls2, "C03/lineSafe")
	}
	vCover(n > 0, "symbolic-leaf")
}

// redactLines applies redactRef to each LF-separated line.
func redactLines(b []byte) []byte {
	var out []byte
	start := 0
	for k := 0; k <= len(b); k++ {
		if k == len(b) || b[k] == '\n' {
			line := b[start:k]
			w, _ := wfls(line)
			if !w {
				return []byte("<line not well-formed>")
			}
			out = append(out, redactRef(line)...)
			if k < len(b) {
				out = append(out, '\n')
			}
			start = k + 1
		}
	}
	return out
}

func init() {
	Harnesses["H_vals"] = H_vals
}
