//go:build verif
// +build verif

package zzverif

import (
	"fmt"
	"strings"

	"github.com/cockroachdb/redact"
)

// symLeaves draws the symbolic leaves for a value of the given kind:
// a string of n bytes and an int.
func symLeaves(kind, n int, validUTF bool) (string, int) {
	bs := vBytes(n)
	if validUTF {
		vAssumeValidUTF8(bs)
	}
	i := 42
	switch kind {
	case vkInt, vkInt64Neg, vkMyInt, vkPubStruct, vkSliceInt, vkArrInt, vkMapStrInt, vkSafeInt, vkRegInt, vkUintptr, vkUint64Big, vkEnumStringer:
		i = vInt()
		vAssume(i >= 0)
		vAssume(i <= 9999)
	case vkUint8:
		i = int(vByte())
	case vkRune, vkSafeRune:
		r := vRune()
		vAssume(validRune(r))
		i = int(r)
	case vkBool:
		i = int(vByte() & 1)
	}
	return string(bs), i
}

type catchRes struct {
	out      string
	panicked bool
}

func catchRedact(f func() redact.RedactableString) (r catchRes) {
	defer func() {
		if e := recover(); e != nil {
			r.panicked = true
		}
	}()
	r.out = string(f())
	return
}

func catchFmt(f func() string) (r catchRes) {
	defer func() {
		if e := recover(); e != nil {
			r.panicked = true
		}
	}()
	r.out = f()
	return
}

// H_c04: strip(redact.Sprintf(d, v)) == esc(fmt.Sprintf(d, v)), and
// Sprint likewise; a panic reaches the caller from one iff from the
// other.  The standard library's fmt is executed by the same engine.
// p = [kind, directive index, n]
func H_c04(p []int) {
	kind, di, n := p[0], p[1], p[2]
	d := directives[di]
	if addrLeak(kind, d) {
		return // would print a machine address: outside the claim
	}
	lk := kind
	if strings.Contains(d, "*") {
		lk = -1 // the operand of a star width/precision stays concrete
	}
	s, i := symLeaves(lk, n, true)
	if strings.ContainsAny(d, "qU") {
		// strconv.IsPrint's table search explodes on a free 32-bit rune:
		// quoted runes are restricted to Latin-1 (stated bound)
		vAssume(i < 0x100)
	}
	v := mkValue(kind, s, i)
	v2 := mkValue(kind, s, i)
	vSite(fmt.Sprintf("kind=%d dir=%q", kind, d))
	var r, f catchRes
	if di >= 0 {
		r = catchRedact(func() redact.RedactableString { return redact.Sprintf(d, v, 3) })
		f = catchFmt(func() string { return fmt.Sprintf(d, v2, 3) })
	}
	vObserve("redact", []byte(r.out))
	vObserve("fmt", []byte(f.out))
	vAssert(r.panicked == f.panicked, "C04/panic-equivalence")
	if !r.panicked && !f.panicked {
		vAssert(bytesEq(strip([]byte(r.out)), esc([]byte(f.out))), "C04/strip-eq-fmt")
		wf, ls := wfls([]byte(r.out))
		vAssert(wf, "C01/wf")
		vAssert(ls, "C03/lineSafe")
		if vProp("C03") {
			vAssert(linesWF([]byte(r.out)), "C03/each-line-wf")
		}
	}
	vAssert(!r.panicked || f.panicked, "C11/no-panic-unless-fmt-panics")
	vCover(hasMarker([]byte(s)), "marker-in-leaf")
}

// H_c04p: Sprint / Fprint with two operands.
// p = [kind1, kind2, n]
func H_c04p(p []int) {
	k1, k2, n := p[0], p[1], p[2]
	s, i := symLeaves(k1, n, true)
	a, b := mkValue(k1, s, i), mkValue(k2, s, 7)
	a2, b2 := mkValue(k1, s, i), mkValue(k2, s, 7)
	vSite(fmt.Sprintf("sprint kinds=%d,%d", k1, k2))
	r := catchRedact(func() redact.RedactableString { return redact.Sprint(a, b, "lit‹", 5) })
	f := catchFmt(func() string { return fmt.Sprint(a2, b2, "lit‹", 5) })
	vObserve("redact", []byte(r.out))
	vObserve("fmt", []byte(f.out))
	vAssert(r.panicked == f.panicked, "C04/panic-equivalence")
	if !r.panicked && !f.panicked {
		vAssert(bytesEq(strip([]byte(r.out)), esc([]byte(f.out))), "C04/strip-eq-fmt")
		wf, ls := wfls([]byte(r.out))
		vAssert(wf, "C01/wf")
		vAssert(ls, "C03/lineSafe")
		if vProp("C03") {
			vAssert(linesWF([]byte(r.out)), "C03/each-line-wf")
		}
	}
	vAssert(!r.panicked || f.panicked, "C11/no-panic-unless-fmt-panics")
}

var c04mFormats = []string{"%d %v", "%v|%d|%s", "%[2]v %[1]d", "%s %s %s %s", "%x %q", "%v"}

// H_c04m: several directives and operands in one call: state left by
// one directive (diagnostics, flags) must not affect the next.
// p = [kind1, kind2, format, n]
func H_c04m(p []int) {
	k1, k2, fi, n := p[0], p[1], p[2], p[3]
	d := c04mFormats[fi]
	if addrLeak(k1, d) || addrLeak(k2, d) {
		return
	}
	s, i := symLeaves(-1, n, true)
	vSite(fmt.Sprintf("multi kinds=%d,%d format=%q", k1, k2, d))
	r := catchRedact(func() redact.RedactableString {
		return redact.Sprintf(d, mkValue(k1, s, i), mkValue(k2, s, i), mkValue(k1, s, 7))
	})
	f := catchFmt(func() string { return fmt.Sprintf(d, mkValue(k1, s, i), mkValue(k2, s, i), mkValue(k1, s, 7)) })
	vObserve("redact", []byte(r.out))
	vAssert(r.panicked == f.panicked, "C04/panic-equivalence")
	if !r.panicked && !f.panicked {
		vAssert(bytesEq(strip([]byte(r.out)), esc([]byte(f.out))), "C04/strip-eq-fmt")
		wf, ls := wfls([]byte(r.out))
		vAssert(wf, "C01/wf")
		vAssert(ls, "C03/lineSafe")
		if vProp("C03") {
			vAssert(linesWF([]byte(r.out)), "C03/each-line-wf")
		}
	}
	vAssert(!r.panicked || f.panicked, "C11/no-panic-unless-fmt-panics")
}

// H_c04w: the directive is assembled from a flag subset, a width and a
// precision drawn from boundary tables (the scratch buffers of the
// printer are 68 bytes; the tables straddle that and the float buffer),
// and a verb.  p = [kind, flag mask (+ - # space 0), width index, precision index, verb index, n]
var c04wWidths = []int{-1, 3, 64, 67, 68, 69, 70, 80, 1000}
var c04wPrecs = []int{-1, 0, 2, 66, 67, 68, 70, 1000}

const c04wVerbs = "dxobvcqUfegsXEGOt"

func c04wDirective(mask, wi, pi, vi int) string {
	d := "%"
	for k, c := range []byte("+-# 0") {
		if mask&(1<<uint(k)) != 0 {
			d += string(rune(c))
		}
	}
	if w := c04wWidths[wi]; w >= 0 {
		d += fmt.Sprint(w)
	}
	if pr := c04wPrecs[pi]; pr >= 0 {
		d += "." + fmt.Sprint(pr)
	}
	return d + string(rune(c04wVerbs[vi]))
}

func H_c04w(p []int) {
	kind, n := p[0], p[5]
	d := c04wDirective(p[1], p[2], p[3], p[4])
	if addrLeak(kind, d) {
		return
	}
	s, i := symLeaves(kind, n, true)
	if strings.ContainsAny(d, "qUc") {
		vAssume(i < 0x100)
	}
	vSite(fmt.Sprintf("kind=%d dir=%q", kind, d))
	r := catchRedact(func() redact.RedactableString { return redact.Sprintf("["+d+"]", mkValue(kind, s, i)) })
	f := catchFmt(func() string { return fmt.Sprintf("["+d+"]", mkValue(kind, s, i)) })
	vObserve("redact", []byte(r.out))
	vAssert(r.panicked == f.panicked, "C04/panic-equivalence")
	if !r.panicked && !f.panicked {
		vAssert(bytesEq(strip([]byte(r.out)), esc([]byte(f.out))), "C04/strip-eq-fmt")
		wf, ls := wfls([]byte(r.out))
		vAssert(wf, "C01/wf")
		vAssert(ls, "C03/lineSafe")
	}
	vAssert(!r.panicked || f.panicked, "C11/no-panic-unless-fmt-panics")
}

func init() {
	Harnesses["H_c04w"] = H_c04w
	Harnesses["H_c04m"] = H_c04m
	Harnesses["H_c04"] = H_c04
	Harnesses["H_c04p"] = H_c04p
}
