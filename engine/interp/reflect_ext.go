package interp

// gosym: extensions of the emulated reflect package: read-only and
// addressable flags, more Value/Type methods, reflect-style type
// strings, deterministic map iteration.

import (
	"fmt"
	"go/types"
	"reflect"
	"sort"
	"strconv"
	"strings"

	"golang.org/x/tools/go/ssa"
)

const (
	rflagRO   = 1 // obtained via unexported field
	rflagAddr = 2 // addressable
)

func mkRV(t types.Type, v value, flags int) value {
	return structure{rtype{t}, v, flags}
}

func rvFlags(v value) int {
	s := v.(structure)
	if len(s) > 2 {
		if f, ok := s[2].(int); ok {
			return f
		}
	}
	return 0
}

func rvValid(v value) bool {
	s, ok := v.(structure)
	if !ok || len(s) < 2 {
		return false
	}
	rt, ok := s[0].(rtype)
	return ok && rt.t != nil
}

func rvPanic(fr *frame, msg string) {
	panic(targetPanic{iface{fr.i.runtimeErrorString, msg}})
}

// reflectTypeString mimics reflect.Type.String().
func reflectTypeString(t types.Type) string {
	switch t := t.(type) {
	case *types.Alias:
		return reflectTypeString(types.Unalias(t))
	case *types.Named:
		obj := t.Obj()
		name := obj.Name()
		if ta := t.TypeArgs(); ta != nil && ta.Len() > 0 {
			var parts []string
			for i := 0; i < ta.Len(); i++ {
				parts = append(parts, types.TypeString(ta.At(i), nil))
			}
			name += "[" + strings.Join(parts, ",") + "]"
		}
		if obj.Pkg() == nil {
			return name
		}
		return obj.Pkg().Name() + "." + name
	case *types.Basic:
		switch t.Kind() {
		case types.Uint8:
			return "uint8"
		case types.Int32:
			return "int32"
		case types.UnsafePointer:
			return "unsafe.Pointer"
		case types.UntypedNil:
			return "nil"
		}
		return t.Name()
	case *types.Pointer:
		return "*" + reflectTypeString(t.Elem())
	case *types.Slice:
		return "[]" + reflectTypeString(t.Elem())
	case *types.Array:
		return "[" + strconv.FormatInt(t.Len(), 10) + "]" + reflectTypeString(t.Elem())
	case *types.Map:
		return "map[" + reflectTypeString(t.Key()) + "]" + reflectTypeString(t.Elem())
	case *types.Chan:
		switch t.Dir() {
		case types.SendOnly:
			return "chan<- " + reflectTypeString(t.Elem())
		case types.RecvOnly:
			return "<-chan " + reflectTypeString(t.Elem())
		}
		return "chan " + reflectTypeString(t.Elem())
	case *types.Signature:
		var sb strings.Builder
		sb.WriteString("func(")
		for i := 0; i < t.Params().Len(); i++ {
			if i > 0 {
				sb.WriteString(", ")
			}
			pt := t.Params().At(i).Type()
			if t.Variadic() && i == t.Params().Len()-1 {
				sb.WriteString("..." + reflectTypeString(pt.(*types.Slice).Elem()))
			} else {
				sb.WriteString(reflectTypeString(pt))
			}
		}
		sb.WriteString(")")
		switch t.Results().Len() {
		case 0:
		case 1:
			sb.WriteString(" " + reflectTypeString(t.Results().At(0).Type()))
		default:
			sb.WriteString(" (")
			for i := 0; i < t.Results().Len(); i++ {
				if i > 0 {
					sb.WriteString(", ")
				}
				sb.WriteString(reflectTypeString(t.Results().At(i).Type()))
			}
			sb.WriteString(")")
		}
		return sb.String()
	case *types.Struct:
		if t.NumFields() == 0 {
			return "struct {}"
		}
		var sb strings.Builder
		sb.WriteString("struct {")
		for i := 0; i < t.NumFields(); i++ {
			if i > 0 {
				sb.WriteString(";")
			}
			f := t.Field(i)
			sb.WriteString(" ")
			if !f.Embedded() {
				sb.WriteString(f.Name() + " ")
			}
			sb.WriteString(reflectTypeString(f.Type()))
			if tag := t.Tag(i); tag != "" {
				sb.WriteString(" " + strconv.Quote(tag))
			}
		}
		sb.WriteString(" }")
		return sb.String()
	case *types.Interface:
		if t.NumMethods() == 0 {
			return "interface {}"
		}
		var sb strings.Builder
		sb.WriteString("interface {")
		for i := 0; i < t.NumMethods(); i++ {
			if i > 0 {
				sb.WriteString(";")
			}
			m := t.Method(i)
			sb.WriteString(" " + m.Name() + strings.TrimPrefix(reflectTypeString(m.Type()), "func"))
		}
		sb.WriteString(" }")
		return sb.String()
	}
	return t.String()
}

// fake addresses for Pointer(): deterministic per path.
var ptrSerial map[interface{}]uintptr

func fakeAddr(k interface{}) uintptr {
	if ptrSerial == nil {
		ptrSerial = map[interface{}]uintptr{}
	}
	if a, ok := ptrSerial[k]; ok {
		return a
	}
	a := uintptr(0xc000010000 + 0x20*len(ptrSerial))
	ptrSerial[k] = a
	return a
}

// fakePtr is the result of (reflect.Value).UnsafePointer: a fake
// address that only supports conversion to uintptr.
type fakePtr uintptr

type mapIterState struct {
	mt   *types.Map
	keys []value
	vals []value
	pos  int
	fl   int
}

func sortedMapEntries(m value) (keys, vals []value) {
	type kv struct {
		k, v value
		s    string
	}
	var l []kv
	switch m := m.(type) {
	case map[value]value:
		for k, v := range m {
			l = append(l, kv{k, v, toString(k)})
		}
	case *hashmap:
		if m != nil {
			for _, e := range m.entries() {
				for ; e != nil; e = e.next {
					l = append(l, kv{e.key, e.value, toString(e.key)})
				}
			}
		}
	case nil:
	default:
		unsup("map iteration over %T", m)
	}
	sort.SliceStable(l, func(i, j int) bool { return l[i].s < l[j].s })
	// Go's map iteration order is unspecified: for small maps every order
	// is explored (a fork over the permutations), for larger ones every
	// rotation and its reverse.
	if n := len(l); n >= 2 && curPC != nil {
		var perms [][]int
		if n <= 3 {
			perms = permutations(n)
		} else {
			for r := 0; r < n; r++ {
				p, q := make([]int, n), make([]int, n)
				for k := 0; k < n; k++ {
					p[k] = (k + r) % n
					q[k] = (n - 1 - k + r) % n
				}
				perms = append(perms, p, q)
			}
		}
		// one choice per path, shared by every map iteration of the path
		if mapOrderChoice < 0 {
			mapOrderChoice = curPC.choose(len(perms))
		}
		c := mapOrderChoice % len(perms)
		l2 := make([]kv, n)
		for k, idx := range perms[c] {
			l2[k] = l[idx]
		}
		l = l2
	}
	for _, e := range l {
		keys = append(keys, e.k)
		vals = append(vals, e.v)
	}
	return
}

// mapOrderChoice is the permutation index picked for this path (-1: not yet).
var mapOrderChoice = -1

func permutations(n int) [][]int {
	if n == 1 {
		return [][]int{{0}}
	}
	var out [][]int
	for _, p := range permutations(n - 1) {
		for pos := 0; pos <= len(p); pos++ {
			q := append(append(append([]int{}, p[:pos]...), n-1), p[pos:]...)
			out = append(out, q)
		}
	}
	return out
}

func init() {
	ext := func(name string, f externalFn) { externals[name] = f }

	ext("reflect.ValueOf", func(fr *frame, args []value) value {
		itf := args[0].(iface)
		if itf.t == nil {
			return structure{iface{}, iface{}, 0}
		}
		return mkRV(itf.t, itf.v, 0)
	})
	ext("reflect.Zero", func(fr *frame, args []value) value {
		t := args[0].(iface).v.(rtype).t
		return mkRV(t, zero(t), 0)
	})
	ext("reflect.New", func(fr *frame, args []value) value {
		t := args[0].(iface).v.(rtype).t
		alloc := zero(t)
		return mkRV(types.NewPointer(t), &alloc, 0)
	})
	ext("reflect.TypeOf", func(fr *frame, args []value) value {
		itf := args[0].(iface)
		if itf.t == nil {
			return iface{}
		}
		return makeReflectType(rtype{itf.t})
	})
	ext("(reflect.Value).IsValid", func(fr *frame, args []value) value { return rvValid(args[0]) })
	ext("(reflect.Value).Kind", func(fr *frame, args []value) value {
		if !rvValid(args[0]) {
			return uint(0)
		}
		return uint(reflectKind(rV2T(args[0]).t))
	})
	ext("(reflect.Value).CanInterface", func(fr *frame, args []value) value {
		if !rvValid(args[0]) {
			rvPanic(fr, "reflect: call of reflect.Value.CanInterface on zero Value")
		}
		return rvFlags(args[0])&rflagRO == 0
	})
	ext("(reflect.Value).CanAddr", func(fr *frame, args []value) value {
		return rvFlags(args[0])&rflagAddr != 0
	})
	ext("(reflect.Value).Interface", func(fr *frame, args []value) value {
		v := args[0].(structure)
		if !rvValid(v) {
			rvPanic(fr, "reflect: call of reflect.Value.Interface on zero Value")
		}
		if rvFlags(v)&rflagRO != 0 {
			rvPanic(fr, "reflect.Value.Interface: cannot return value obtained from unexported field or method")
		}
		t := rV2T(v).t
		if _, ok := t.Underlying().(*types.Interface); ok {
			// interface-kinded Value: return the dynamic value
			if x, ok := rV2V(v).(iface); ok {
				return x
			}
		}
		return iface{t, rV2V(v)}
	})
	ext("(reflect.Value).Field", func(fr *frame, args []value) value {
		v := args[0]
		i := args[1].(int)
		st := rV2T(v).t.Underlying().(*types.Struct)
		f := st.Field(i)
		fl := rvFlags(v)
		if !f.Exported() {
			fl |= rflagRO
		}
		return mkRV(f.Type(), rV2V(v).(structure)[i], fl)
	})
	ext("(reflect.Value).NumField", func(fr *frame, args []value) value {
		return rV2T(args[0]).t.Underlying().(*types.Struct).NumFields()
	})
	ext("(reflect.Value).Index", func(fr *frame, args []value) value {
		i := args[1].(int)
		t := rV2T(args[0]).t.Underlying()
		fl := rvFlags(args[0])
		switch v := rV2V(args[0]).(type) {
		case array:
			if i < 0 || i >= len(v) {
				rvPanic(fr, "reflect: array index out of range")
			}
			return mkRV(t.(*types.Array).Elem(), v[i], fl)
		case []value:
			if i < 0 || i >= len(v) {
				rvPanic(fr, "reflect: slice index out of range")
			}
			return mkRV(t.(*types.Slice).Elem(), v[i], fl|rflagAddr)
		case string:
			return mkRV(types.Typ[types.Uint8], v[i], fl&rflagRO)
		case symstr:
			return mkRV(types.Typ[types.Uint8], v[i], fl&rflagRO)
		default:
			unsup("reflect.(Value).Index(%T)", v)
		}
		return nil
	})
	ext("(reflect.Value).Elem", func(fr *frame, args []value) value {
		fl := rvFlags(args[0])
		switch x := rV2V(args[0]).(type) {
		case iface:
			if x.t == nil {
				return structure{iface{}, iface{}, 0}
			}
			return mkRV(x.t, x.v, fl&rflagRO)
		case *value:
			if x == nil {
				return structure{iface{}, iface{}, 0}
			}
			et := rV2T(args[0]).t.Underlying().(*types.Pointer).Elem()
			return mkRV(et, load(et, x), fl&rflagRO|rflagAddr)
		default:
			unsup("reflect.(Value).Elem(%T)", x)
		}
		return nil
	})
	ext("(reflect.Value).Len", func(fr *frame, args []value) value {
		switch v := rV2V(args[0]).(type) {
		case string:
			return len(v)
		case symstr:
			return len(v)
		case array:
			return len(v)
		case chan value:
			return len(v)
		case []value:
			return len(v)
		case *hashmap:
			return v.len()
		case map[value]value:
			return len(v)
		default:
			rvPanic(fr, "reflect: call of reflect.Value.Len on "+kindName(args[0])+" Value")
		}
		return nil
	})
	ext("(reflect.Value).Cap", func(fr *frame, args []value) value {
		switch v := rV2V(args[0]).(type) {
		case array:
			return len(v)
		case []value:
			return cap(v)
		}
		rvPanic(fr, "reflect: call of reflect.Value.Cap on "+kindName(args[0])+" Value")
		return nil
	})
	ext("(reflect.Value).Bytes", func(fr *frame, args []value) value {
		switch v := rV2V(args[0]).(type) {
		case []value:
			return v
		case array:
			if rvFlags(args[0])&rflagAddr == 0 {
				rvPanic(fr, "reflect.Value.Bytes of unaddressable byte array")
			}
			return []value(v)
		}
		rvPanic(fr, "reflect: call of reflect.Value.Bytes on "+kindName(args[0])+" Value")
		return nil
	})
	ext("(reflect.Value).Slice", func(fr *frame, args []value) value {
		i, j := args[1].(int), args[2].(int)
		t := rV2T(args[0]).t
		switch v := rV2V(args[0]).(type) {
		case []value:
			return mkRV(t, v[i:j], rvFlags(args[0]))
		case array:
			if rvFlags(args[0])&rflagAddr == 0 {
				rvPanic(fr, "reflect.Value.Slice: slice of unaddressable array")
			}
			return mkRV(types.NewSlice(t.Underlying().(*types.Array).Elem()), []value(v)[i:j], rvFlags(args[0]))
		case string:
			return mkRV(t, v[i:j], rvFlags(args[0]))
		case symstr:
			return mkRV(t, normStr(v[i:j]), rvFlags(args[0]))
		}
		unsup("reflect.Value.Slice(%T)", rV2V(args[0]))
		return nil
	})
	ext("(reflect.Value).Complex", func(fr *frame, args []value) value {
		switch v := rV2V(args[0]).(type) {
		case complex64:
			return complex128(v)
		case complex128:
			return v
		}
		rvPanic(fr, "reflect: call of reflect.Value.Complex on "+kindName(args[0])+" Value")
		return nil
	})
	ext("(reflect.Value).Int", func(fr *frame, args []value) value {
		switch x := rV2V(args[0]).(type) {
		case int:
			return int64(x)
		case int8:
			return int64(x)
		case int16:
			return int64(x)
		case int32:
			return int64(x)
		case int64:
			return x
		case symv:
			if kindSigned(x.kind) {
				return curTT.symConvInt(x, types.Int64)
			}
		}
		rvPanic(fr, "reflect: call of reflect.Value.Int on "+kindName(args[0])+" Value")
		return nil
	})
	ext("(reflect.Value).Uint", func(fr *frame, args []value) value {
		switch v := rV2V(args[0]).(type) {
		case uint:
			return uint64(v)
		case uint8:
			return uint64(v)
		case uint16:
			return uint64(v)
		case uint32:
			return uint64(v)
		case uint64:
			return uint64(v)
		case uintptr:
			return uint64(v)
		case symv:
			if !kindSigned(v.kind) && v.kind != types.Bool {
				return curTT.symConvInt(v, types.Uint64)
			}
		}
		rvPanic(fr, "reflect: call of reflect.Value.Uint on "+kindName(args[0])+" Value")
		return nil
	})
	ext("(reflect.Value).Bool", func(fr *frame, args []value) value {
		switch v := rV2V(args[0]).(type) {
		case bool:
			return v
		case symv:
			if v.kind == types.Bool {
				return v
			}
		}
		rvPanic(fr, "reflect: call of reflect.Value.Bool on "+kindName(args[0])+" Value")
		return nil
	})
	ext("(reflect.Value).String", func(fr *frame, args []value) value {
		if !rvValid(args[0]) {
			return "<invalid Value>"
		}
		switch v := rV2V(args[0]).(type) {
		case string:
			return v
		case symstr:
			return v
		}
		return "<" + reflectTypeString(rV2T(args[0]).t) + " Value>"
	})
	ext("(reflect.Value).Pointer", rvPointer)
	ext("(reflect.Value).UnsafePointer", func(fr *frame, args []value) value {
		return fakePtr(rvPointer(fr, args).(uintptr))
	})
	ext("(reflect.Value).IsNil", func(fr *frame, args []value) value {
		switch x := rV2V(args[0]).(type) {
		case *value:
			return x == nil
		case chan value:
			return x == nil
		case map[value]value:
			return x == nil
		case *hashmap:
			return x == nil
		case iface:
			return x.t == nil
		case []value:
			return x == nil
		case *ssa.Function:
			return x == nil
		case *ssa.Builtin:
			return x == nil
		case *closure:
			return x == nil
		case nil:
			return true
		default:
			rvPanic(fr, "reflect: call of reflect.Value.IsNil on "+kindName(args[0])+" Value")
		}
		return nil
	})
	ext("(reflect.Value).MapKeys", func(fr *frame, args []value) value {
		mt := rV2T(args[0]).t.Underlying().(*types.Map)
		ks, _ := sortedMapEntries(rV2V(args[0]))
		fl := rvFlags(args[0]) & rflagRO
		var out []value
		for _, k := range ks {
			out = append(out, mkRV(mt.Key(), k, fl))
		}
		return out
	})
	ext("(reflect.Value).MapIndex", func(fr *frame, args []value) value {
		mt := rV2T(args[0]).t.Underlying().(*types.Map)
		k := rV2V(args[1])
		fl := rvFlags(args[0]) & rflagRO
		switch m := rV2V(args[0]).(type) {
		case map[value]value:
			if v, ok := m[k]; ok {
				return mkRV(mt.Elem(), v, fl)
			}
		case *hashmap:
			if v := m.lookup(k.(hashable)); v != nil {
				return mkRV(mt.Elem(), v, fl)
			}
		}
		return structure{iface{}, iface{}, 0}
	})
	ext("(reflect.Value).MapRange", func(fr *frame, args []value) value {
		mt, ok := rV2T(args[0]).t.Underlying().(*types.Map)
		if !ok {
			rvPanic(fr, "reflect: call of reflect.Value.MapRange on "+kindName(args[0])+" Value")
		}
		ks, vs := sortedMapEntries(rV2V(args[0]))
		var v value = &mapIterState{mt: mt, keys: ks, vals: vs, pos: -1, fl: rvFlags(args[0]) & rflagRO}
		return &v
	})
	ext("(*reflect.MapIter).Next", func(fr *frame, args []value) value {
		it := (*args[0].(*value)).(*mapIterState)
		it.pos++
		return it.pos < len(it.keys)
	})
	ext("(*reflect.MapIter).Key", func(fr *frame, args []value) value {
		it := (*args[0].(*value)).(*mapIterState)
		return mkRV(it.mt.Key(), it.keys[it.pos], it.fl)
	})
	ext("(*reflect.MapIter).Value", func(fr *frame, args []value) value {
		it := (*args[0].(*value)).(*mapIterState)
		return mkRV(it.mt.Elem(), it.vals[it.pos], it.fl)
	})
	ext("(reflect.Value).Type", func(fr *frame, args []value) value {
		if !rvValid(args[0]) {
			rvPanic(fr, "reflect: call of reflect.Value.Type on zero Value")
		}
		return makeReflectType(rV2T(args[0]))
	})
	ext("(reflect.Value).NumMethod", func(fr *frame, args []value) value {
		if !rvValid(args[0]) {
			rvPanic(fr, "reflect: call of reflect.Value.NumMethod on zero Value")
		}
		t := rV2T(args[0]).t
		if it, ok := t.Underlying().(*types.Interface); ok {
			return it.NumMethods()
		}
		n := 0
		ms := fr.i.prog.MethodSets.MethodSet(t)
		for i := 0; i < ms.Len(); i++ {
			if ms.At(i).Obj().Exported() {
				n++
			}
		}
		return n
	})
	ext("(reflect.rtype).String", func(fr *frame, args []value) value {
		return reflectTypeString(args[0].(rtype).t)
	})
	ext("(reflect.rtype).Name", func(fr *frame, args []value) value {
		switch t := types.Unalias(args[0].(rtype).t).(type) {
		case *types.Named:
			return t.Obj().Name()
		case *types.Basic:
			return reflectTypeString(t)
		}
		return ""
	})
	ext("(reflect.rtype).PkgPath", func(fr *frame, args []value) value {
		if t, ok := types.Unalias(args[0].(rtype).t).(*types.Named); ok && t.Obj().Pkg() != nil {
			return t.Obj().Pkg().Path()
		}
		return ""
	})
	ext("(reflect.rtype).Len", func(fr *frame, args []value) value {
		return int(args[0].(rtype).t.Underlying().(*types.Array).Len())
	})
	ext("(reflect.rtype).Key", func(fr *frame, args []value) value {
		return makeReflectType(rtype{args[0].(rtype).t.Underlying().(*types.Map).Key()})
	})
	ext("(reflect.rtype).Comparable", func(fr *frame, args []value) value {
		return types.Comparable(args[0].(rtype).t)
	})
	ext("(reflect.rtype).Implements", func(fr *frame, args []value) value {
		u := args[1].(iface).v.(rtype).t.Underlying().(*types.Interface)
		return types.Implements(args[0].(rtype).t, u)
	})
	ext("(reflect.rtype).NumMethod", func(fr *frame, args []value) value {
		t := args[0].(rtype).t
		if it, ok := t.Underlying().(*types.Interface); ok {
			return it.NumMethods()
		}
		n := 0
		ms := fr.i.prog.MethodSets.MethodSet(t)
		for i := 0; i < ms.Len(); i++ {
			if ms.At(i).Obj().Exported() {
				n++
			}
		}
		return n
	})
}

func kindName(v value) string {
	if !rvValid(v) {
		return "zero"
	}
	return reflect.Kind(reflectKind(rV2T(v).t)).String()
}

func rvPointer(fr *frame, args []value) value {
	switch v := rV2V(args[0]).(type) {
	case *value:
		if v == nil {
			return uintptr(0)
		}
		return fakeAddr(v)
	case chan value:
		if v == nil {
			return uintptr(0)
		}
		return fakeAddr(reflect.ValueOf(v).Pointer())
	case []value:
		if v == nil {
			return uintptr(0)
		}
		if len(v) == 0 && cap(v) == 0 {
			return fakeAddr("zerobase")
		}
		return fakeAddr(&v[:1][0])
	case *hashmap:
		if v == nil {
			return uintptr(0)
		}
		return fakeAddr(v)
	case map[value]value:
		if v == nil {
			return uintptr(0)
		}
		return fakeAddr(reflect.ValueOf(v).Pointer())
	case *ssa.Function:
		if v == nil {
			return uintptr(0)
		}
		return fakeAddr(v)
	case *closure:
		if v == nil {
			return uintptr(0)
		}
		return fakeAddr(v)
	case nil:
		return uintptr(0)
	default:
		rvPanic(fr, fmt.Sprintf("reflect: call of reflect.Value.Pointer on %s Value", kindName(args[0])))
	}
	return nil
}
