#!/bin/bash
# try_seed.sh <seed-id> <check-id> [tier] [lines]: apply a seeded change in a scratch
# worktree of /repo (current HEAD, i.e. including fix: commits), run a check against
# it (GOSYM_REPO), remove the worktree.  Evidence/replays of such runs go to a scratch dir.
id=$1; chk=$2; tier=${3:-quick}
W=$(mktemp -d /tmp/seedtry-XXXXXX); rmdir $W
git -C /repo worktree add --detach $W HEAD >/dev/null 2>&1 || exit 2
V=$(mktemp -d /tmp/seedtry-verif-XXXXXX)
trap 'git -C /repo worktree remove --force $W >/dev/null 2>&1; rm -rf $W $V' EXIT
P=${SEEDDIR:-/verif/seeded}/$id/patch.diff; [ -f ${SEEDDIR:-/verif/seeded}/$id/patch_on_fixed_head.diff ] && P=${SEEDDIR:-/verif/seeded}/$id/patch_on_fixed_head.diff
cd $W && git apply -3 $P 2>/dev/null || { echo "PATCH-DOES-NOT-APPLY $id"; exit 2; }
cp /verif/known_findings.json $V/
cd /verif && GOSYM_REPO=$W GOSYM_VERIF=$V ${GOSYM_BIN:-./bin/gosym} check $chk --tier $tier 2>&1 | grep -v "^  violation" | tail -${4:-6}
