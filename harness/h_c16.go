//go:build verif
// +build verif

package zzverif

import (
	"errors"
	"fmt"

	"github.com/cockroachdb/redact"
)

// harness writer: records calls, returns a scripted result
type hWriter struct {
	mode  int // 0 ok, 1 error, 2 short
	calls int
	got   []byte
	err   error
}

func (w *hWriter) Write(p []byte) (int, error) {
	w.calls++
	w.got = append(w.got, p...)
	switch w.mode {
	case 1:
		return 0, w.err
	case 2:
		if len(p) > 0 {
			return len(p) - 1, w.err
		}
	}
	return len(p), nil
}

// SafeFormatter that forwards its operands to Print / Printf
type sfRoute struct {
	format string // "" = Print
	args   []interface{}
	printf bool // Printf even with an empty format
}

func (x sfRoute) SafeFormat(w redact.SafePrinter, verb rune) {
	if x.format == "" && !x.printf {
		w.Print(x.args...)
	} else {
		w.Printf(x.format, x.args...)
	}
}

// H_c16: all entry points agree.  p = [kind1, kind2, n, printf(0/1), writer mode]
func H_c16(p []int) {
	k1, k2, n, pf, wmode := p[0], p[1], p[2], p[3], p[4]
	s, i := symLeaves(-1, n, false)
	a := func() []interface{} { return []interface{}{mkValue(k1, s, i), mkValue(k2, s, 7)} }
	format := ""
	emptyFormat := false
	if pf == 1 {
		format = "x‹%v y%5s|%d"
	}
	if pf == 2 {
		// a format without verbs, called without operands
		pf = 1
		format = "hello ‹ lit\n."
		a = func() []interface{} { return nil }
	}
	if pf == 3 {
		// %w outside HelperForErrorf, with an error operand
		pf = 1
		format = "e %w|%v"
		a = func() []interface{} { return []interface{}{valErr{s}, mkValue(k2, s, 7)} }
	}
	if pf == 4 {
		// an empty format with operands: the EXTRA diagnostic
		pf = 1
		format = ""
		a = func() []interface{} { return []interface{}{mkValue(k1, s, i), 2} }
		emptyFormat = true
	}
	vSite(fmt.Sprintf("kinds=%d,%d printf=%d wmode=%d format=%q", k1, k2, pf, wmode, format))
	// route 1: Sprint / Sprintf
	var r1 []byte
	if pf == 0 {
		r1 = []byte(redact.Sprint(a()...))
	} else {
		r1 = []byte(redact.Sprintf(format, a()...))
	}
	vObserve("sprint", r1)
	// route 2: Fprint / Fprintf
	w := &hWriter{mode: wmode, err: errors.New("werr")}
	var nn int
	var err error
	if pf == 0 {
		nn, err = redact.Fprint(w, a()...)
	} else {
		nn, err = redact.Fprintf(w, format, a()...)
	}
	vAssert(w.calls == 1, "C16/single-write")
	vAssert(bytesEq(w.got, r1), "C16/fprint-bytes-identical")
	switch wmode {
	case 0:
		vAssert(nn == len(r1), "C16/fprint-count")
		vAssert(err == nil, "C16/fprint-err")
	default:
		vAssert(err == w.err, "C16/fprint-returns-writer-error")
	}
	// route 3: StringBuilder
	var b redact.StringBuilder
	if pf == 0 {
		b.Print(a()...)
	} else {
		b.Printf(format, a()...)
	}
	r3 := []byte(b.RedactableString())
	vAssert(bytesEq(mergeAdj(r3), mergeAdj(r1)), "C16/builder-agrees")
	// route 4: SafePrinter inside Sprintfn
	r4 := []byte(redact.Sprintfn(func(sp redact.SafePrinter) {
		if pf == 0 {
			sp.Print(a()...)
		} else {
			sp.Printf(format, a()...)
		}
	}))
	vAssert(bytesEq(mergeAdj(r4), mergeAdj(r1)), "C16/sprintfn-agrees")
	// route 5: SafePrinter inside a SafeFormat method
	r5 := []byte(redact.Sprint(sfRoute{format, a(), emptyFormat}))
	vAssert(bytesEq(mergeAdj(r5), mergeAdj(r1)), "C16/safeformat-agrees")
	// StringWithoutMarkers is the same rendering, stripped
	vAssert(bytesEq([]byte(redact.StringWithoutMarkers(sfRoute{format, a(), emptyFormat})), strip(r5)), "C16/stringwithoutmarkers-agrees")
	// routes 3/4 with a non-empty outer buffer (open envelope, pending bytes)
	var b2 redact.StringBuilder
	b2.UnsafeString("u")
	if pf == 0 {
		b2.Print(a()...)
	} else {
		b2.Printf(format, a()...)
	}
	b2.SafeString("k")
	r6 := []byte(b2.RedactableString())
	vAssert(bytesEq(mergeAdj(r6), mergeAdj(cat([]byte("‹u›"), r1, []byte("k")))), "C16/builder-nonempty-agrees")
	r7 := []byte(redact.Sprintfn(func(sp redact.SafePrinter) {
		sp.UnsafeString("u")
		if pf == 0 {
			sp.Print(a()...)
		} else {
			sp.Printf(format, a()...)
		}
		sp.SafeString("k")
	}))
	vAssert(bytesEq(mergeAdj(r7), mergeAdj(cat([]byte("‹u›"), r1, []byte("k")))), "C16/sprintfn-nonempty-agrees")
	vCover(n > 0, "symbolic-leaf")
}

// H_c16d: nested Print under a directive with flags: the SafeFormat
// route prints like Sprint whatever the outer directive.
// p = [kind, outer directive index (c16Outer), n]
var c16Outer = []string{"%v", "%+v", "%#v", "%8v", "%-8v", "%08v", "%.1v", "%s", "%d", "%x"}

func H_c16d(p []int) {
	kind, di, n := p[0], p[1], p[2]
	s, i := symLeaves(-1, n, false)
	vSite(fmt.Sprintf("nested kind=%d outer=%q", kind, c16Outer[di]))
	r1 := []byte(redact.Sprint(mkValue(kind, s, i)))
	r5 := []byte(redact.Sprintf(c16Outer[di], sfRoute{"", []interface{}{mkValue(kind, s, i)}, false}))
	vObserve("sprint", r1)
	vAssert(bytesEq(mergeAdj(r5), mergeAdj(r1)), "C16/safeformat-agrees-under-flags")
	r6 := []byte(redact.Sprintf(c16Outer[di], sfRoute{"%v", []interface{}{mkValue(kind, s, i)}, false}))
	vAssert(bytesEq(mergeAdj(r6), mergeAdj(r1)), "C16/safeformat-printf-agrees-under-flags")
}

// H_c16e: empty outputs: one Write call all the same.  p = [variant]
func H_c16e(p []int) {
	w := &hWriter{mode: 1, err: errors.New("werr")}
	var n int
	var err error
	switch p[0] {
	case 0:
		n, err = redact.Fprint(w)
	case 1:
		n, err = redact.Fprint(w, "")
	case 2:
		n, err = redact.Fprintf(w, "")
	case 3:
		n, err = redact.Fprintf(w, "%s%s", "", redact.SafeString(""))
	case 4:
		n, err = redact.Fprint(w, redact.RedactableString(""))
	}
	vAssert(w.calls == 1, "C16/single-write")
	vAssert(err == w.err, "C16/fprint-returns-writer-error")
	vAssert(n == 0, "C16/fprint-count")
}

var c16Pre = []string{"%05d|", "%-6s|", "%.1f|", "%+v|", "%#x|", "%8.3v|"}

type sfSeq struct {
	pre  string
	parg interface{}
	args []interface{}
	pf   string
}

func (x sfSeq) SafeFormat(w redact.SafePrinter, verb rune) {
	w.Printf(x.pre, x.parg)
	if x.pf == "" {
		w.Print(x.args...)
	} else {
		w.Printf(x.pf, x.args...)
	}
}

// H_c16s: several Print/Printf calls on one SafePrinter: each prints
// like the stand-alone route whatever the calls before it did.
// p = [kind, pre-directive, n, printf(0/1)]
func H_c16s(p []int) {
	kind, pi, n, pf := p[0], p[1], p[2], p[3]
	s, i := symLeaves(-1, n, false)
	vSite(fmt.Sprintf("sequence kind=%d pre=%q printf=%d", kind, c16Pre[pi], pf))
	var parg interface{} = 7
	if pi == 1 {
		parg = "ab"
	} else if pi == 2 {
		parg = 2.5
	} else if pi == 3 {
		parg = pubStruct{"a", 1}
	}
	format := ""
	if pf == 1 {
		format = "x%vy%vz"
	}
	args := func() []interface{} { return []interface{}{mkValue(kind, s, i), 42} }
	first := []byte(redact.Sprintf(c16Pre[pi], parg))
	var second []byte
	if pf == 0 {
		second = []byte(redact.Sprint(args()...))
	} else {
		second = []byte(redact.Sprintf(format, args()...))
	}
	want := mergeAdj(cat(first, second))
	r1 := []byte(redact.Sprintfn(func(w redact.SafePrinter) {
		w.Printf(c16Pre[pi], parg)
		if pf == 0 {
			w.Print(args()...)
		} else {
			w.Printf(format, args()...)
		}
	}))
	vObserve("sprintfn", r1)
	vAssert(bytesEq(mergeAdj(r1), want), "C16/sprintfn-sequence-agrees")
	r2 := []byte(redact.Sprint(sfSeq{c16Pre[pi], parg, args(), format}))
	vAssert(bytesEq(mergeAdj(r2), want), "C16/safeformat-sequence-agrees")
	var b redact.StringBuilder
	b.Printf(c16Pre[pi], parg)
	if pf == 0 {
		b.Print(args()...)
	} else {
		b.Printf(format, args()...)
	}
	vAssert(bytesEq(mergeAdj([]byte(b.RedactableString())), want), "C16/builder-sequence-agrees")
}

func init() {
	Harnesses["H_c16s"] = H_c16s
	Harnesses["H_c16"] = H_c16
	Harnesses["H_c16d"] = H_c16d
	Harnesses["H_c16e"] = H_c16e
}
