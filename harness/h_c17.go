//go:build verif
// +build verif

package zzverif

import (
	"errors"
	"fmt"

	"github.com/cockroachdb/redact"
	"github.com/cockroachdb/redact/internal/rfmt"
)

func init() {
	resetFns = append(resetFns, rfmt.VerifResetGlobals)
}

// counting error kinds
// errCalls counts calls of the error values' own methods (a global,
// so that the values hold no pointer whose address could be printed).
var errCalls int

type cntErr struct{ s string }

func (e cntErr) Error() string { errCalls++; return e.s }

type cntErrStr struct{ s string }

func (e cntErrStr) Error() string  { errCalls++; return e.s }
func (e cntErrStr) String() string { errCalls++; return "STR" + e.s }

type cntErrFmt struct{ s string }

func (e cntErrFmt) Error() string                  { errCalls++; return e.s }
func (e cntErrFmt) Format(st fmt.State, verb rune) { errCalls++; st.Write([]byte("FMT")) }

// value-receiver wrapping error (no pointer, no address in any rendering)
type wrapErrV struct {
	msg string
	in  error
}

func (e wrapErrV) Error() string { errCalls++; return e.msg + ": " + e.in.Error() }
func (e wrapErrV) Unwrap() error { return e.in }

type errSafeFmt struct{ s string }

func (e errSafeFmt) Error() string { return e.s }
func (e errSafeFmt) SafeFormat(w redact.SafePrinter, verb rune) {
	w.SafeString("ESF:")
	w.UnsafeString(e.s)
}

type errSafeMsg struct{ s string }

func (e errSafeMsg) Error() string       { return e.s }
func (e errSafeMsg) SafeMessage() string { return "ESM" }

type cntNilErr struct{ calls *int }

var nilErrCalls int

type pNilErr struct{ s string }

func (e *pNilErr) Error() string {
	nilErrCalls++
	if e == nil {
		return "nilrecv"
	}
	return e.s
}

type errHolder struct {
	E error
	N int
}
type errHolderPriv struct {
	e error
}

// c17Err builds error kind k with text s.
func c17Err(k int, s string) error {
	switch k {
	case 0:
		return cntErr{s}
	case 1:
		return wrapErrV{"w", cntErr{s}}
	case 2:
		return (*pNilErr)(nil)
	case 3:
		return cntErrStr{s}
	case 4:
		return cntErrFmt{s}
	case 5:
		return errSafeFmt{s}
	case 6:
		return errSafeMsg{s}
	case 7:
		// an unnamed struct type that gets Error() by embedding
		return struct{ error }{cntErr{s}}
	case 8:
		return errFmtSP{s}
	}
	panic("c17Err")
}

// errFmtSP is an error with a Format method that looks for the
// SafePrinter behind its fmt.State and uses the safe emitters on it.
type errFmtSP struct{ s string }

func (e errFmtSP) Error() string { errCalls++; return e.s }
func (e errFmtSP) Format(st fmt.State, verb rune) {
	if p, ok := st.(redact.SafePrinter); ok {
		p.SafeString("rich(")
		p.SafeRune(redact.SafeRune(verb))
		p.SafeString("): ")
		p.UnsafeString(e.s)
		p.SafeByte('!')
		p.SafeBytes([]byte("[end]"))
		return
	}
	st.Write([]byte("plain: " + e.s))
}

var c17WForms = []string{"%+w", "%[1]w", "%8w", "%-6w"}

var c17Dirs = []string{"%v", "%+v", "%s", "%q", "%x", "%d", "%#v", "%8v", "%-6s|"}

// H_c17: the error hook.  p = [error kind, position, directive, n, hook(0/1), panic-in-hook(0/1), earlier call, earlier operand of the same call]
// positions: 0 top level, 1 %w in HelperForErrorf, 2 exported field, 3 slice element,
// 4 map value, 5 interface in []interface{}, 6 under Unsafe(), 7 under Safe(), 8 unexported field
func H_c17(p []int) {
	ek, pos, di, n, hook, hpanic := p[0], p[1], p[2], p[3], p[4], p[5]
	bs := vBytes(n)
	for k := range bs {
		vAssume(bs[k] != '\n')
	}
	vAssumeValidUTF8(bs)
	s := string(bs)
	errCalls = 0
	nilErrCalls = 0
	e := c17Err(ek, s)
	d := c17Dirs[di]
	vSite(fmt.Sprintf("err=%d pos=%d dir=%q hook=%d", ek, pos, d, hook))
	hookCalls := 0
	var hookErr error
	var hookVerb rune
	if len(p) > 6 && p[6] == 4 {
		// the same error type printed once BEFORE the hook is installed: a
		// dispatch decision remembered per type must not survive registration
		_ = redact.Sprintf("%v %v", c17Err(ek, "x"), []error{c17Err(ek, "y")})
		errCalls, nilErrCalls = 0, 0
	}
	if hook == 1 {
		redact.RegisterRedactErrorFn(func(err error, w redact.SafePrinter, verb rune) {
			hookCalls++
			hookErr, hookVerb = err, verb
			w.SafeString("H[")
			w.SafeRune(redact.SafeRune(verb))
			w.UnsafeString("u")
			if hpanic == 1 {
				panic("hookpanic")
			}
			w.Print(redact.Safe("s"), "x")
			w.SafeString("]")
		})
	}
	if len(p) > 6 && p[6] > 0 {
		// an earlier, unrelated call with the same hook installed
		switch p[6] {
		case 1:
			_ = redact.Sprint(redact.Safe(wrapErrV{"pre", cntErr{"x"}}))
		case 2:
			_ = redact.Sprintf("%v", redact.Unsafe(cntErr{"x"}))
		case 3:
			_ = redact.Sprintf("%8.3v", cntErr{"x"})
		}
		errCalls, nilErrCalls, hookCalls = 0, 0, 0
	}
	var arg interface{}
	switch pos {
	case 0, 1, 9, 10, 11, 12:
		arg = e
	case 2:
		arg = errHolder{e, 1}
	case 3:
		arg = []error{e}
	case 4:
		arg = map[string]error{"k": e}
	case 5:
		arg = []interface{}{e}
	case 6:
		arg = redact.Unsafe(e)
	case 7:
		arg = redact.Safe(e)
	case 8:
		arg = errHolderPriv{e}
	}
	var out []byte
	// p[7] > 0: an earlier operand of the SAME call (not an error: the hook
	// is not involved) whose method panics or has a nil receiver; what it
	// leaves in the printer must not change how the error is handled
	var preArgs []interface{}
	preFmt := ""
	var preOut []byte
	if len(p) > 7 && p[7] > 0 {
		var pa interface{}
		switch p[7] {
		case 1:
			pa = (*vstrer)(nil)
		case 2:
			pa = panStr{"x"}
		case 3:
			pa = redact.Safe("pre")
		case 4:
			pa = (*pfmter)(nil)
		}
		preArgs = []interface{}{pa}
		preFmt = "%v "
		preOut = []byte(redact.Sprintf(preFmt, pa))
		errCalls, nilErrCalls, hookCalls = 0, 0, 0
	}
	r := catchRedact(func() redact.RedactableString {
		if pos == 1 {
			t, _ := redact.HelperForErrorf(preFmt+"a %w b", append(preArgs, arg)...)
			return t
		}
		if pos >= 9 {
			t, _ := redact.HelperForErrorf(preFmt+"a "+c17WForms[pos-9]+" b", append(preArgs, arg)...)
			return t
		}
		return redact.Sprintf(preFmt+"a "+d+" b", append(preArgs, arg)...)
	})
	vAssert(!r.panicked, "C17/no-panic")
	if r.panicked {
		return
	}
	out = []byte(r.out)
	vObserve("out", out)
	if len(preOut) > 0 {
		vAssert(hasPrefix(out, preOut), "C17/earlier-operand-intact")
		if !hasPrefix(out, preOut) {
			return
		}
		out = out[len(preOut):]
	}
	wf, _ := wfls(out)
	vAssert(wf, "C17/wf")
	dispatched := ek <= 4 || ek >= 7 // not SafeFormatter / SafeMessager
	hookText := "H[" + "v" + "‹u›s‹x›]"
	switch {
	case hook == 1 && dispatched && pos != 6 && pos != 8:
		// rendered solely by the hook
		vAssert(hookCalls == 1, "C17/hook-called-once")
		vAssert(errCalls == 0 && nilErrCalls == 0, "C17/error-methods-not-called")
		if hookCalls == 1 {
			vAssert(hookErr == e, "C17/hook-gets-the-error")
			wantVerb := rune(d[len(d)-1])
			if d[len(d)-1] == '|' {
				wantVerb = rune(d[len(d)-2])
			}
			if pos == 1 || pos >= 9 {
				wantVerb = 'v'
			}
			vAssert(hookVerb == wantVerb, "C17/hook-gets-the-verb")
			if hpanic == 0 {
				// under Safe() the outermost wrapper decides (C06), so the
				// hook's safe/unsafe calls are only checked outside wrappers
				if pos != 7 {
					want := []byte("H[" + string(wantVerb) + "‹u›s‹x›]")
					vAssert(containsBytes(mergeAdj(out), mergeAdj(want)), "C17/hook-output-honoured")
				}
			} else {
				// like any method panic: reported as PANIC=, or as <nil> when
				// the receiver is a nil pointer (fmt's rule)
				if ek == 2 {
					vAssert(containsBytes(out, []byte("<nil>")), "C17/hook-panic-reported")
				} else {
					vAssert(containsBytes(out, []byte("PANIC=")), "C17/hook-panic-reported")
				}
				vAssert(hasPrefix(out, []byte("a ")), "C17/text-before-intact")
				vAssert(len(out) >= 2 && bytesEq(out[len(out)-2:], []byte(" b")), "C17/text-after-intact")
			}
		}
	case pos == 6:
		// under Unsafe: hook bypassed, everything enveloped
		vAssert(hookCalls == 0, "C17/hook-bypassed-under-unsafe")
		if wf {
			lit := ""
			if d[len(d)-1] == '|' {
				lit = "|"
			}
			vAssert(bytesEq(delEnv(out), []byte("a "+lit+" b")), "C17/unsafe-fully-enveloped")
		}
	case pos == 8:
		vAssert(hookCalls == 0, "C17/no-dispatch-on-unexported-field")
	case hook == 0 && dispatched && ek != 8 && (pos == 0 || pos == 2 || pos == 3 || pos == 5) && len(preOut) == 0:
		// no hook: the error renders as under the standard library (Error()
		// wins over String(), Format() over both)
		f := catchFmt(func() string { return fmt.Sprintf("a "+d+" b", arg) })
		if !f.panicked {
			vAssert(bytesEq(strip(out), esc([]byte(f.out))), "C17/no-hook-as-fmt")
		}
	case !dispatched:
		vAssert(hookCalls == 0, "C17/safeformatter-bypasses-hook")
	}
	_ = hookText
	_ = errors.New
	vCover(hook == 1 && hookCalls == 1, "hook-dispatched")
}

func containsBytes(b, sub []byte) bool {
	for i := 0; i+len(sub) <= len(b); i++ {
		if string(b[i:i+len(sub)]) == string(sub) {
			return true
		}
	}
	return false
}

func init() {
	Harnesses["H_c17"] = H_c17
}
