//go:build verif
// +build verif

package zzverif

import (
	"fmt"
	"io"
	"reflect"

	"github.com/cockroachdb/redact"
)

type regHolder struct{ r regInt }

type safeStringer string

func (safeStringer) SafeValue()       {}
func (s safeStringer) String() string { return "S(" + string(s) + ")" }

type safeErr struct{ s string }

func (safeErr) SafeValue()      {}
func (e safeErr) Error() string { return "E(" + e.s + ")" }

// kind-preserving blanks: print nothing under the standard fmt
type blankS string

func (blankS) Format(st fmt.State, verb rune) {}

type blankI int

func (blankI) Format(st fmt.State, verb rune) {}

// safeEmit is a SafeFormatter that emits through the safe methods.
type safeEmit struct{ s string }

func (x safeEmit) SafeFormat(w redact.SafePrinter, verb rune) {
	w.SafeString(redact.SafeString(x.s))
	w.SafeRune('/')
	w.SafeString("5")
}

// plain twin of safeEmit for the fmt side
type safeEmitPlain struct{ s string }

func (x safeEmitPlain) Format(st fmt.State, verb rune) { st.Write([]byte(x.s + "/5")) }

// c05Leaf returns (redact operand, fmt operand with unsafe leaves blanked).
//
//	0 unsafe string Σu     1 unsafe int            2 SafeString(Σs)   3 Safe(Σs)
//	4 SafeInt              5 regInt (registered)   6 safeEmit(Σs)     7 safeStr (SafeValue type)
//	8 Safe(int)            9 unsafe []byte (under %s/%x/%q only)
func c05Leaf(k int, su, ss string, regMode int) (interface{}, interface{}) {
	registered := regMode == 1
	switch k {
	case 0:
		return su, blankS("")
	case 1:
		return 1234, blankI(0)
	// safe leaves: the fmt side gets the very same value (C14 shows that
	// fmt prints Safe(x) like x), so that operand kinds - which decide
	// Sprint's spacing - are identical on both sides
	case 2:
		return redact.SafeString(ss), redact.SafeString(ss)
	case 3:
		return redact.Safe(ss), redact.Safe(ss)
	case 4:
		return redact.SafeInt(77), redact.SafeInt(77)
	case 5:
		if registered {
			return regInt(31), regInt(31)
		}
		return regInt(31), blankI(0)
	case 6:
		return safeEmit{ss}, safeEmitPlain{ss}
	case 7:
		return safeStr(ss), safeStr(ss)
	case 8:
		return redact.Safe(99), redact.Safe(99)
	case 9:
		// a registered safe type reached as a reflect.Value that cannot be
		// interfaced (obtained through an unexported field)
		v := reflect.ValueOf(regHolder{regInt(31)}).Field(0)
		if registered {
			return v, 31
		}
		return v, blankI(0)
	case 12:
		// nested wrappers: the outermost decides
		return redact.Safe(redact.Safe(ss)), redact.Safe(ss)
	case 13:
		return redact.Unsafe(redact.Safe(ss)), blankLeaf{}
	case 14:
		return redact.Safe(redact.Unsafe(ss)), redact.Safe(ss)
	case 15:
		// a nil pointer whose POINTER type may be registered (regMode 2):
		// registration is by exact type, so *regInt registered makes this
		// operand safe and leaves regInt values (leaf 5) unsafe
		if regMode == 2 {
			return (*regInt)(nil), (*regInt)(nil)
		}
		return (*regInt)(nil), blankLeaf{}
	case 17:
		// under Safe(): a concretely typed pre-redactable field (all safe
		// text) followed by further leaves: everything stays visible
		return redact.Safe(c05RedStruct{"r", ss, "q", 7}), c05PlainStruct{"r", ss, "q", 7}
	case 18:
		// the same under Unsafe(): everything enveloped
		return redact.Unsafe(c05RedStruct{"r", su, "q", 7}), blankLeaf{}
	case 19:
		// a SafeFormatter that emits unsafe data with io.WriteString / WriteString on the printer
		return c05SFWS{su}, c05SFWSPlain{}
	case 20:
		// under Safe(): a SafeFormatter that prints plain operands through
		// the nested Print and Printf of its printer: the outermost wrapper
		// decides for both routes, everything stays visible
		return redact.Safe(c05SFPrint{ss}), c05SFPrintPlain{ss + "7" + ss + ";7"}
	case 21:
		// the same without a wrapper: only the Printf literal is safe
		return c05SFPrint{su}, c05SFPrintPlain{";"}
	case 16:
		// a pointer whose type is a SafeValue: its address is safe text
		// (same pointer on both sides; used with %p formats)
		return c05SafePtr, c05SafePtr
	case 10:
		// a SafeValue with a String method (its text is safe)
		return safeStringer(ss), safeStringer(ss)
	case 11:
		// a SafeValue that is also an error
		return safeErr{ss}, safeErr{ss}
	}
	panic("c05Leaf")
}

var c05Formats = []string{"x‹%v y%v|%v", "%5v|%-7v|%05v", "%6v %v %-3v|", "%.1v %v %+v", "%v%v%v", "%p|%v|%v", "%20p|%v %v", "%[1]p %[2]v %[3]v"}

type c05RedStruct struct {
	R  redact.RedactableString
	S  string
	RB redact.RedactableString
	N  int
}

// fmt twin (a RedactableBytes field is not used: nested under Safe() inside a
// container it is printed by the standard fmt, as a byte list)
type c05PlainStruct struct {
	R  string
	S  string
	RB string
	N  int
}

type c05SFWS struct{ s string }

func (x c05SFWS) SafeFormat(p redact.SafePrinter, verb rune) {
	p.SafeString("ws:")
	io.WriteString(p, x.s)
	p.SafeString(";")
	if sw, ok := p.(io.StringWriter); ok {
		sw.WriteString(x.s)
	}
	p.SafeString(".")
}

type c05SFPrint struct{ s string }

func (x c05SFPrint) SafeFormat(p redact.SafePrinter, verb rune) {
	p.Print(x.s, 7)
	p.Printf("%v;%d", x.s, 7)
}

type c05SFPrintPlain struct{ s string }

func (x c05SFPrintPlain) Format(st fmt.State, verb rune) { st.Write([]byte(x.s)) }

type c05SFWSPlain struct{}

func (c05SFWSPlain) Format(st fmt.State, verb rune) { st.Write([]byte("ws:;.")) }

type safePtrT struct{ a int }

func (*safePtrT) SafeValue() {}

var c05SafePtr = &safePtrT{1}

// H_c05: exactly the unsafe arguments are enveloped.
// p = [leaf1, leaf2, leaf3, shape, format, n, registry (0 empty, 1 regInt, 2 *regInt), prelude]
// prelude > 0: an unrelated earlier call (c12History(prelude-1)) runs first
// shape 0: top-level operands; 1: inside []interface{}; 2: inside struct with interface fields;
// 3: map[string]interface{}; 4: Sprint
func H_c05(p []int) {
	shape, fi, n, reg := p[3], p[4], p[5], p[6]
	su := vBytes(n)
	ssb := vBytes(n)
	for k := range su {
		vAssume(su[k] != '\n')
	}
	vAssumeValidUTF8(su)
	vAssumeValidUTF8(ssb)
	if p[0] == 13 || p[1] == 13 || p[2] == 13 {
		// leaf 13 renders the second payload as unsafe text: LF-free, like every unsafe payload here
		for k := range ssb {
			vAssume(ssb[k] != '\n')
		}
	}
	if len(p) > 7 && p[7] >= 100 {
		// the same operands printed once BEFORE the registration: a
		// classification remembered per type must not survive it
		var pa []interface{}
		for k := 0; k < 3; k++ {
			r, _ := c05Leaf(p[k], "x", "y", 0)
			pa = append(pa, r)
		}
		_ = redact.Sprint(pa...)
		_ = redact.Sprintf("%v %v", pa[0], []interface{}{pa[1], pa[2]})
		// ... and alone, the first operand last (what a printer saw last is
		// what the next call on it starts with)
		_ = redact.Sprint(pa[2])
		_ = redact.Sprint(pa[1])
		_ = redact.Sprint(pa[0])
	}
	if reg == 1 {
		redact.RegisterSafeType(reflect.TypeOf(regInt(0)))
	} else if reg == 2 {
		redact.RegisterSafeType(reflect.TypeOf((*regInt)(nil)))
	}
	if len(p) > 7 && p[7] > 0 && p[7] < 100 {
		c12History(p[7]-1, "h")
	}
	var ra, fa []interface{}
	for k := 0; k < 3; k++ {
		r, f := c05Leaf(p[k], string(su), string(ssb), reg)
		ra = append(ra, r)
		fa = append(fa, f)
	}
	vSite(fmt.Sprintf("leaves=%v shape=%d format=%d reg=%v", p[:3], shape, fi, reg))
	var out []byte
	var want string
	switch shape {
	case 0:
		out = []byte(redact.Sprintf(c05Formats[fi], ra...))
		want = fmt.Sprintf(c05Formats[fi], fa...)
	case 1:
		out = []byte(redact.Sprintf("l %v r", ra))
		want = fmt.Sprintf("l %v r", fa)
	case 2:
		type T struct{ A, B, C interface{} }
		out = []byte(redact.Sprintf("l %+v r", T{ra[0], ra[1], ra[2]}))
		want = fmt.Sprintf("l %+v r", T{fa[0], fa[1], fa[2]})
	case 3:
		out = []byte(redact.Sprintf("l %v r", map[string]interface{}{"a": ra[0], "b": ra[1]}))
		want = fmt.Sprintf("l %v r", map[blankS]interface{}{"a": fa[0], "b": fa[1]})
	case 4:
		out = []byte(redact.Sprint(ra...))
		want = fmt.Sprint(fa...)
	}
	if p[0] != 16 {
		vObserve("out", out) // (addresses differ between the engine and the native build)
	}
	wf, _ := wfls(out)
	vAssert(wf, "C05/wf")
	if wf {
		vAssert(bytesEq(delEnv(out), esc([]byte(want))), "C05/exactly-unsafe-enveloped")
	}
	vCover(n > 0, "symbolic-leaves")
}

func init() {
	Harnesses["H_c05"] = H_c05
}
