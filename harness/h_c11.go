//go:build verif
// +build verif

package zzverif

import (
	"errors"
	"fmt"

	"github.com/cockroachdb/redact"
)

// panicking redact-specific methods
type panSafeFmt struct{ s string }

func (x panSafeFmt) SafeFormat(w redact.SafePrinter, verb rune) {
	w.SafeString("part")
	w.UnsafeString("ial")
	panic(x.s)
}

type panSafeMsg struct{ s string }

func (x panSafeMsg) SafeMessage() string { panic(errors.New(x.s)) }

// a Formatter that panics after writing part of its output
type panFmtPartial struct{ s string }

func (x panFmtPartial) Format(st fmt.State, verb rune) {
	st.Write([]byte("wrote"))
	panic(x.s)
}

func panicker(kind int, s string) interface{} {
	switch kind {
	case 0:
		return panStr{s}
	case 1:
		return panErr{s}
	case 2:
		return panFmt{s}
	case 3:
		return panGo{s}
	case 4:
		return panSafeFmt{s}
	case 5:
		return panSafeMsg{s}
	case 6:
		return panFmtPartial{s}
	case 7:
		return []interface{}{panStr{s}, redact.SafeString("x")}
	case 8:
		return ifaceStruct{panErr{s}, redact.SafeInt(1)}
	// a contained panic FOLLOWED by further elements of the same operand:
	// the elements after the report print as if nothing had happened
	case 9:
		return nilThenFields{nil, 7, s}
	case 10:
		return []interface{}{(*vstrer)(nil), 7, s}
	case 11:
		return []interface{}{panStr{s}, "y", "x"}
	case 12:
		return nilErrThenFields{(*derefErr)(nil), 7, s}
	case 13:
		// a panic whose payload panics again while it is being reported,
		// raised inside a nested Printf of a SafeFormat method
		return sfDoublePanic{s}
	}
	panic("panicker")
}

const nPanickers = 14

// a value-receiver method reached through a nil pointer panics in the
// runtime; fmt (and redact) print <nil>
type nilThenFields struct {
	A *vstrer
	B int
	C string
}

type derefErr struct{ s string }

func (e *derefErr) Error() string { return e.s }

type nilErrThenFields struct {
	E error
	B int
	C string
}

var c11Dirs = []string{"%v", "%+v", "%#v", "%s", "%d", "%x", "%q", "%8v", "%-8s|"}

// H_c11p: a panic raised by a user method is reported in place with the
// payload unsafe; text before and after is intact.
// p = [panicker kind, directive, n]
func H_c11p(p []int) {
	kind, di, n := p[0], p[1], p[2]
	d := c11Dirs[di]
	bs := vBytes(n)
	for k := range bs {
		vAssume(bs[k] != '\n')
	}
	vAssumeValidUTF8(bs)
	s := string(bs)
	format := "head‹ " + d + " tail %v|%d"
	vSite(fmt.Sprintf("panicker=%d dir=%q", kind, d))
	r := catchRedact(func() redact.RedactableString {
		return redact.Sprintf(format, panicker(kind, s), redact.Safe("t‹"), 5)
	})
	vAssert(!r.panicked, "C11/user-panic-contained")
	if r.panicked {
		return
	}
	out := []byte(r.out)
	// the returned string is a value: an unrelated later call (served by
	// whatever printers the first one gave back) does not change it
	// (also for a short result, which fits the printer's initial 64-byte buffer)
	short := catchRedact(func() redact.RedactableString { return redact.Sprintf("p %v s", panicker(kind, s)) })
	shortCopy := append([]byte{}, short.out...)
	_ = redact.Sprintf("%020d %v %s", 0, nestedSF{"qqqqqqqq"}, "zzzzzzzzzzzzzzzzzzzzzzzz")
	_ = redact.Sprintf("yyyyyyyyyyyyyyyy %d", 1)
	vAssert(bytesEq([]byte(r.out), out), "C11/result-stable-after-later-call")
	vAssert(bytesEq([]byte(short.out), shortCopy), "C11/result-stable-after-later-call")
	vObserve("out", out)
	wf, ls := wfls(out)
	vAssert(wf, "C11/wf")
	vAssert(ls, "C11/lineSafe")
	if (kind <= 3 || kind >= 6) && kind != 13 {
		// fmt-compatible panickers: compare with the standard library
		f := catchFmt(func() string { return fmt.Sprintf(format, panicker(kind, s), "t‹", 5) })
		f0 := catchFmt(func() string { return fmt.Sprintf(format, panicker(kind, ""), "t‹", blankI(0)) })
		vAssert(!f.panicked, "C11/fmt-contains-too")
		vAssert(bytesEq(strip(out), esc([]byte(f.out))), "C11/text-as-fmt")
		if kind == 11 {
			// the unsafe siblings are enveloped too: blank them on the fmt side
			f0 = catchFmt(func() string { return fmt.Sprintf(format, []interface{}{panStr{""}, blankS(""), blankS("")}, "t‹", blankI(0)) })
		}
		if kind == 6 {
			// partial output through the fmt.State is unsafe, the report after it is not
			f0 = catchFmt(func() string { return fmt.Sprintf(format, panFmt{""}, "t‹", blankI(0)) })
		}
		if wf && containsBytes([]byte(f0.out), []byte("PANIC=")) {
			// with envelopes deleted only the payload (and the unsafe 5) is gone
			vAssert(bytesEq(delEnv(out), esc([]byte(f0.out))), "C11/only-payload-enveloped")
		}
	} else if wf {
		// redact-specific panickers: the tail must be intact and safe
		tail := []byte(" tail t?|")
		de := delEnv(out)
		vAssert(len(de) >= len(tail) && bytesEq(de[len(de)-len(tail):], tail), "C11/tail-intact")
		vAssert(hasPrefix(de, []byte("head? ")), "C11/head-intact")
	}
	vCover(n > 0, "symbolic-payload")
}

func init() {
	Harnesses["H_c11p"] = H_c11p
}
