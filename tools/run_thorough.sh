#!/bin/bash
# run_thorough.sh [ids...]: run thorough checks sequentially into a scratch verif dir, log one line each.
V=${THOROUGH_VERIF:-/tmp/thorough-verif}; mkdir -p $V; cp /verif/known_findings.json $V/
ids=${@:-01 02 03 04 05 06 07 08 09 10 11 12 13 14 15 16 17}
cd /verif
for i in $ids; do
  s=$(date +%s)
  out=$(GOSYM_VERIF=$V ${GOSYM_BIN:-./bin/gosym} check C$i --tier thorough 2>&1); rc=$?
  e=$(( $(date +%s) - s ))
  echo "C$i rc=$rc ${e}s $(echo "$out" | grep '^check ' | sed 's/^check C.. tier=[a-z]*: //' | cut -c1-260)"
  echo "$out" | grep "INCONCLUSIVE\|cover goals\|MISMATCH\|UNCONFIRMED\|^VIOLATION" | cut -c1-300 | head -6
done
