package interp

// gosym environment models, second batch: facilities a refactoring of
// the target could plausibly start to use.  sync/atomic (sequential
// semantics: the executor runs one goroutine), atomic.Value,
// sync.WaitGroup, the rest of sync.Map, internal/bytealg.MakeNoZero.
// A `go` statement is unsupported (reported, never executed).

import (
	"go/token"
	"go/types"
	"strings"

	"golang.org/x/tools/go/ssa"
)

var atomicValues map[*value]value

func resetEnvModels() {
	atomicValues = map[*value]value{}
}

func genericBinop(op token.Token, t types.Type, x, y value) value {
	if isSym(x) || isSym(y) {
		return curTT.symBinop(op, x, y)
	}
	return binop(op, t, x, y)
}

func elemTypeOfParam0(fr *frame) types.Type {
	sig := fr.fn.Signature
	return sig.Params().At(0).Type().Underlying().(*types.Pointer).Elem()
}

func valuesIdentical(a, b value) bool {
	if isSym(a) || isSym(b) {
		unsup("sync/atomic compare-and-swap on a symbolic value")
	}
	defer func() {
		if r := recover(); r != nil {
			if _, ok := r.(unsupported); ok {
				panic(r)
			}
			unsup("sync/atomic compare-and-swap: %v", r)
		}
	}()
	return a == b
}

func init() {
	for _, T := range []string{"Int32", "Int64", "Uint32", "Uint64", "Uintptr", "Pointer"} {
		externals["sync/atomic.Load"+T] = func(fr *frame, args []value) value {
			return *args[0].(*value)
		}
		externals["sync/atomic.Store"+T] = func(fr *frame, args []value) value {
			*args[0].(*value) = args[1]
			return nil
		}
		externals["sync/atomic.Swap"+T] = func(fr *frame, args []value) value {
			p := args[0].(*value)
			old := *p
			*p = args[1]
			return old
		}
		externals["sync/atomic.CompareAndSwap"+T] = func(fr *frame, args []value) value {
			p := args[0].(*value)
			if valuesIdentical(*p, args[1]) {
				*p = args[2]
				return true
			}
			return false
		}
		if T != "Pointer" {
			externals["sync/atomic.Add"+T] = func(fr *frame, args []value) value {
				p := args[0].(*value)
				*p = genericBinop(token.ADD, elemTypeOfParam0(fr), *p, args[1])
				return *p
			}
			externals["sync/atomic.And"+T] = func(fr *frame, args []value) value {
				p := args[0].(*value)
				old := *p
				*p = genericBinop(token.AND, elemTypeOfParam0(fr), *p, args[1])
				return old
			}
			externals["sync/atomic.Or"+T] = func(fr *frame, args []value) value {
				p := args[0].(*value)
				old := *p
				*p = genericBinop(token.OR, elemTypeOfParam0(fr), *p, args[1])
				return old
			}
		}
	}
	// atomic.Value: a hidden cell per receiver
	externals["(*sync/atomic.Value).Load"] = func(fr *frame, args []value) value {
		if v, ok := atomicValues[args[0].(*value)]; ok {
			return v
		}
		return iface{}
	}
	externals["(*sync/atomic.Value).Store"] = func(fr *frame, args []value) value {
		if x, ok := args[1].(iface); ok && x.t == nil {
			panic(targetPanic{"sync/atomic: store of nil value into Value"})
		}
		atomicValues[args[0].(*value)] = args[1]
		return nil
	}
	externals["(*sync/atomic.Value).Swap"] = func(fr *frame, args []value) value {
		p := args[0].(*value)
		old, ok := atomicValues[p]
		atomicValues[p] = args[1]
		if !ok {
			return iface{}
		}
		return old
	}
	externals["(*sync/atomic.Value).CompareAndSwap"] = func(fr *frame, args []value) value {
		unsup("atomic.Value.CompareAndSwap not modelled")
		return nil
	}
	nop := func(fr *frame, args []value) value { return nil }
	for _, n := range []string{"(*sync.WaitGroup).Add", "(*sync.WaitGroup).Done", "(*sync.WaitGroup).Wait"} {
		externals[n] = nop
	}
	// the rest of sync.Map
	externals["(*sync.Map).Range"] = func(fr *frame, args []value) value {
		p := args[0].(*value)
		snapshot := append([]syncMapEntry{}, syncMaps[p]...)
		for _, e := range snapshot {
			if !call(fr.i, fr, token.NoPos, args[1], []value{e.k, e.v}).(bool) {
				break
			}
		}
		return nil
	}
	externals["(*sync.Map).LoadAndDelete"] = func(fr *frame, args []value) value {
		p := args[0].(*value)
		for i, e := range syncMaps[p] {
			if syncMapKeyEq(e.k, args[1]) {
				syncMaps[p] = append(append([]syncMapEntry{}, syncMaps[p][:i]...), syncMaps[p][i+1:]...)
				return tuple{e.v, true}
			}
		}
		return tuple{iface{}, false}
	}
	externals["(*sync.Map).Swap"] = func(fr *frame, args []value) value {
		p := args[0].(*value)
		for i, e := range syncMaps[p] {
			if syncMapKeyEq(e.k, args[1]) {
				l := append([]syncMapEntry{}, syncMaps[p]...)
				l[i].v = args[2]
				syncMaps[p] = l
				return tuple{e.v, true}
			}
		}
		syncMaps[p] = append(syncMaps[p], syncMapEntry{args[1], args[2]})
		return tuple{iface{}, false}
	}
	externals["(*sync.Map).Clear"] = func(fr *frame, args []value) value {
		delete(syncMaps, args[0].(*value))
		return nil
	}
	externals["internal/bytealg.MakeNoZero"] = func(fr *frame, args []value) value {
		n := args[0].(int)
		r := make([]value, n)
		for i := range r {
			r[i] = byte(0)
		}
		return r
	}
}

// libFunc: is fn part of the target library (not the harness)?
func libFunc(fn *ssa.Function) bool {
	if fn == nil || fn.Pkg == nil {
		return false
	}
	p := fn.Pkg.Pkg.Path()
	return strings.HasPrefix(p, "github.com/cockroachdb/redact") && !strings.HasSuffix(p, "/zzverif")
}

// sort.Slice / SliceStable / SliceIsSorted use internal/reflectlite's
// swapper; modelled as a stable insertion sort over the slice cells that
// calls the real less closure (symbolic results fork).  For keys that
// compare equal the host's unstable order may differ from this one.
func callLess(fr *frame, less value, i, j int) bool {
	r := call(fr.i, fr, token.NoPos, less, []value{i, j})
	if sv, ok := r.(symv); ok {
		return curPC.branch(sv.t)
	}
	return r.(bool)
}

func init() {
	sortSlice := func(fr *frame, args []value) value {
		x, ok := args[0].(iface)
		if !ok {
			unsup("sort.Slice on a non-interface value")
		}
		sl, ok := x.v.([]value)
		if !ok {
			panic(targetPanic{"sort.Slice: not a slice"})
		}
		// insertion sort; less(i, j) refers to the current positions, so
		// elements are swapped in place step by step
		for i := 1; i < len(sl); i++ {
			for j := i; j > 0 && callLess(fr, args[1], j, j-1); j-- {
				sl[j], sl[j-1] = sl[j-1], sl[j]
			}
		}
		return nil
	}
	externals["sort.Slice"] = sortSlice
	externals["sort.SliceStable"] = sortSlice
	externals["sort.SliceIsSorted"] = func(fr *frame, args []value) value {
		x := args[0].(iface)
		sl := x.v.([]value)
		for i := len(sl) - 1; i > 0; i-- {
			if callLess(fr, args[1], i, i-1) {
				return false
			}
		}
		return true
	}
}
