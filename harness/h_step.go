//go:build verif
// +build verif

package zzverif

import (
	"fmt"

	"github.com/cockroachdb/redact"
	"github.com/cockroachdb/redact/internal/buffer"
)

// H_step: per-call lemmas from canonical states (DESIGN §2.5, §6 C09a).
// The state Can(P, m, Q) is produced through the public API only:
//
//	SetMode(raw); Write(P)   P a symbolic well-formed fragment (shape)
//	SetMode(m);   Write(Q)   Q = nq fully symbolic pending bytes (a wf fragment when m is raw)
//
// then ONE arbitrary SafeWriter operation with a symbolic payload is applied
// (ManualBuffer mapping of the 19 operations), and the result is compared
// with the result of the state before the call:
//
//	C01 wf, C03 line-safe (any Q, any payload),
//	C09 strip(post) = strip(pre) ++ esc(payload), delEnv(post) = delEnv(pre) ++ safe part
//	    (Q and payload valid UTF-8),
//	C13 Len, C11 no panic and earlier output kept.
//
// p = [fragment shape, mode, nq, op, npayload]
func H_step(p []int) {
	shape, mode, nq, op, np := p[0], p[1], p[2], p[3], p[4]
	P := vFragment(shape)
	var Q []byte
	if mode == modeRaw {
		Q = vFragment(nq % nFragShapes)
	} else {
		Q = vBytes(nq)
	}
	o := mkOp(op, np)
	vSite(fmt.Sprintf("step shape=%d mode=%d nq=%d op=%c", shape, mode, nq, rune('A'+op)))
	var b redact.ManualBuffer
	b.SetMode(buffer.SafeRaw)
	b.Write(P)
	b.SetMode(buffer.OutputMode(mode))
	b.Write(Q)
	pre := []byte(b.RedactableString())
	preLen := b.Len()
	vAssert(preLen == len(pre), "C13/len")
	applyManual(&b, o)
	post := []byte(b.RedactableString())
	vObserve("pre", pre)
	vObserve("post", post)
	vAssert(b.Len() == len(post), "C13/len")
	wf, ls := wfls(post)
	vAssert(wf, "C01/wf-step")
	vAssert(wf, "C09/wf-step")
	vAssert(ls, "C03/lineSafe-step")
	if vProp("C03") {
		vAssert(linesWF(post), "C03/each-line-wf-step")
	}
	vAssert(ls, "C09/lineSafe-step")
	text, ok := o.payloadText()
	if !ok || !validUTF8(Q) {
		return
	}
	vAssert(bytesEq(strip(post), cat(strip(pre), esc(text))), "C09/step-strip")
	vAssert(hasPrefix(strip(post), strip(pre)), "C11/earlier-output-kept")
	wfPre, _ := wfls(pre)
	if wf && wfPre {
		vAssert(bytesEq(delEnv(post), cat(delEnv(pre), o.safeText(text))), "C09/step-delenv")
	}
	vCover(true, "step-valid")
}

func init() {
	Harnesses["H_step"] = H_step
}
