#!/bin/bash
# try_seed.sh <seed-id> <check-id> [tier]: apply a seeded change to /repo, run a check, revert.
id=$1; chk=$2; tier=${3:-quick}
cd /repo && git apply /verif/seeded/$id/patch.diff || exit 2
trap 'git -C /repo checkout -- . ; git -C /repo clean -fdq' EXIT
cd /verif && ./bin/gosym check $chk --tier $tier 2>&1 | grep -v "^  violation" | tail -${4:-6}
