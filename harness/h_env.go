//go:build verif
// +build verif

package zzverif

import (
	"bytes"
	"fmt"
	"sort"
	"strings"
	"sync"
	"sync/atomic"
	"unicode/utf8"
	"unsafe"
)

// H_env: environment smoke: standard-library facilities a refactoring of
// the library could plausibly start to use, run by the engine and by the
// native twin on the same inputs (selftest ENVCONF).  p = [case, n]
var envOnce sync.Once
var envCounter int64
var envVal atomic.Value
var envMu sync.RWMutex
var envMap sync.Map

func H_env(p []int) {
	bs := vBytes(p[1])
	s := string(bs)
	var out []byte
	switch p[0] {
	case 0:
		envOnce.Do(func() { envCounter = 5 })
		envOnce.Do(func() { envCounter = 7 })
		out = []byte(fmt.Sprint(envCounter))
	case 1:
		var c int64
		atomic.AddInt64(&c, 3)
		atomic.StoreInt64(&c, atomic.LoadInt64(&c)+1)
		var u uint32
		atomic.CompareAndSwapUint32(&u, 0, 9)
		out = []byte(fmt.Sprint(c, u))
	case 2:
		envVal.Store("x" + s)
		out = []byte(envVal.Load().(string))
	case 3:
		xs := []string{"b" + s, "a", "c"}
		sort.Strings(xs)
		ys := []int{3, 1, 2}
		sort.Slice(ys, func(i, j int) bool { return ys[i] < ys[j] })
		out = []byte(fmt.Sprint(xs, ys))
	case 4:
		var b bytes.Buffer
		b.WriteString("p")
		b.Write(bs)
		b.WriteByte('q')
		b.WriteRune('‹')
		fmt.Fprintf(&b, "%d", 12)
		out = append(out, b.Bytes()...)
		b.Reset()
		b.WriteString("z")
		out = append(out, b.String()...)
	case 5:
		var sb strings.Builder
		sb.Grow(4)
		sb.WriteString(s)
		sb.WriteByte('!')
		sb.WriteRune('›')
		out = []byte(sb.String() + fmt.Sprint(sb.Len()))
	case 6:
		str := *(*string)(unsafe.Pointer(&bs))
		out = []byte(str + "|")
	case 7:
		envMu.RLock()
		envMap.Store("k", s)
		v, _ := envMap.Load("k")
		envMu.RUnlock()
		envMap.Range(func(k, v interface{}) bool { out = append(out, k.(string)...); return true })
		out = append(out, v.(string)...)
	case 8:
		out = []byte(fmt.Sprint(envStr(p[2], s)))
	case 9:
		out = []byte(fmt.Sprint(envBytes(p[2], bs)))
	case 10:
		out = []byte(fmt.Sprint(utf8.Valid(bs), utf8.RuneCount(bs), utf8.ValidString(s), utf8.FullRune(bs), utf8.RuneCountInString(s)))
		r, w := utf8.DecodeLastRune(bs)
		out = append(out, []byte(fmt.Sprint(r, w))...)
		out = utf8.AppendRune(out, r)
	case 11:
		type pair struct {
			a int
			b string
		}
		m := map[pair][]byte{{1, "x"}: bs}
		m[pair{2, s}] = nil
		delete(m, pair{1, "x"})
		arr := [4]byte{1, 2, 3, 4}
		sl := arr[1:3:4]
		sl = append(sl, 9)
		cp := make([]byte, 2)
		n := copy(cp, s)
		out = []byte(fmt.Sprint(len(m), arr, sl, n, cp))
	case 12:
		var wg sync.WaitGroup
		var mu sync.Mutex
		wg.Add(1)
		func() { defer wg.Done(); mu.Lock(); out = append(out, 'w'); mu.Unlock() }()
		wg.Wait()
		p := sync.Pool{New: func() interface{} { return new(bytes.Buffer) }}
		b := p.Get().(*bytes.Buffer)
		b.WriteString(s)
		out = append(out, b.Bytes()...)
		b.Reset()
		p.Put(b)
	}
	vObserve("env", out)
}

func envStr(k int, s string) interface{} {
	switch k {
	case 0:
		return strings.IndexByte(s, 'a')
	case 1:
		return strings.Contains(s, "ab")
	case 2:
		return strings.HasPrefix(s, "a")
	case 3:
		return strings.Count(s, "a")
	case 4:
		return strings.LastIndex(s, "a")
	case 5:
		return strings.IndexRune(s, '‹')
	case 6:
		return strings.IndexAny(s, "xy")
	case 7:
		return strings.TrimSpace(s)
	case 8:
		return strings.ToUpper(s)
	case 9:
		return strings.Repeat(s, 2)
	case 10:
		return strings.Split(s, "a")
	case 11:
		return strings.Fields(s)
	case 12:
		return strings.EqualFold(s, "AB")
	case 13:
		return strings.Replace(s, "a", "b", -1)
	case 14:
		return strings.TrimLeft(s, "a")
	case 15:
		return strings.TrimSuffix(s, "a")
	case 16:
		return strings.Index(s, "ab")
	case 17:
		return strings.Join([]string{s, "x", s}, ",")
	case 18:
		return strings.Compare(s, "ab")
	case 19:
		return strings.ContainsRune(s, '›')
	case 20:
		return strings.NewReplacer("‹", "?", "›", "?").Replace(s)
	case 21:
		return strings.Map(func(r rune) rune {
			if r == 'a' {
				return 'b'
			}
			return r
		}, s)
	case 22:
		return strings.ContainsAny(s, "‹›")
	case 23:
		return strings.LastIndexByte(s, 'a')
	}
	return nil
}

const nEnvStr = 24

func envBytes(k int, bs []byte) interface{} {
	switch k {
	case 0:
		return bytes.IndexByte(bs, 'a')
	case 1:
		return bytes.Contains(bs, []byte("ab"))
	case 2:
		return bytes.HasSuffix(bs, []byte("a"))
	case 3:
		return bytes.Count(bs, []byte("a"))
	case 4:
		return bytes.Equal(bs, []byte("ab"))
	case 5:
		return bytes.IndexRune(bs, '›')
	case 6:
		return bytes.TrimSpace(bs)
	case 7:
		return bytes.Split(bs, []byte("a"))
	case 8:
		return bytes.LastIndexByte(bs, 'a')
	case 9:
		return bytes.ContainsRune(bs, 'a')
	case 10:
		return bytes.IndexAny(bs, "ab")
	case 11:
		return bytes.Compare(bs, []byte("b"))
	case 12:
		return bytes.Replace(bs, []byte("a"), []byte("b"), -1)
	case 13:
		return bytes.ToLower(bs)
	case 14:
		return bytes.Index(bs, []byte("ab"))
	case 15:
		return bytes.Repeat(bs, 2)
	case 16:
		return bytes.Join([][]byte{bs, bs}, []byte(","))
	case 17:
		return bytes.LastIndex(bs, []byte("a"))
	case 18:
		return bytes.HasPrefix(bs, []byte("‹"))
	case 19:
		return bytes.Runes(bs)
	}
	return nil
}

const nEnvBytes = 20

const nEnvCases = 13

func init() {
	Harnesses["H_env"] = H_env
}
