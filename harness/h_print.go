//go:build verif
// +build verif

package zzverif

import (
	"fmt"

	"github.com/cockroachdb/redact"
)

// H_smoke: a few concrete and symbolic printer calls (engine smoke test).
func H_smoke(p []int) {
	s := string(vBytes(p[0]))
	var out string
	switch p[1] {
	case 0:
		out = string(redact.Sprintf("a %s b", s))
	case 1:
		out = string(redact.Sprintf("a %5s|%v b", s, redact.Safe(s)))
	case 2:
		out = string(redact.Sprint(s, 12, []string{s}))
	case 3:
		out = fmt.Sprintf("%6s|%-6s|%q", s, s, s)
	case 4:
		type T struct {
			A string
			b int
		}
		out = string(redact.Sprintf("%+v %#v %d", T{s, 1}, &T{s, 2}, []int{1, 2}))
	case 5:
		out = string(redact.Sprintf("%x %X % x %v", s, []byte(s), s, map[string]int{"a": 1, "b": 2}))
	case 6:
		i := vInt()
		vAssume(i >= -99999)
		vAssume(i <= 99999)
		out = string(redact.Sprintf("%d|%5d|%x|%v", i, i, i, redact.Safe(i)))
	}
	vObserve("out", []byte(out))
	wf, ls := wfls([]byte(out))
	vAssert(wf, "C01/wf")
	vAssert(ls, "C03/lineSafe")
	if vProp("C03") {
		vAssert(linesWF([]byte(out)), "C03/each-line-wf")
	}
}

func init() {
	Harnesses["H_smoke"] = H_smoke
}

// H_dbg: scratch harness for engine debugging.
func H_dbg(p []int) {
	var b redact.StringBuilder
	pre := make([]byte, p[0])
	for j := range pre {
		pre[j] = 'x'
	}
	b.Write(append(pre, vByte()))
	vObserve("cap1", []byte(fmt.Sprint(b.Cap(), b.Len())))
	b.Write(vBytes(2))
	vObserve("out", []byte(b.RedactableString()))
}

func init() { Harnesses["H_dbg"] = H_dbg }
