package interp

// gosym glue: conversions, symbolic indexing, harness intrinsics,
// program loading and the per-task explorer.

import (
	"fmt"
	"go/token"
	"go/types"
	"os"
	"path/filepath"
	"runtime/debug"
	"sort"
	"strings"
	"time"

	"golang.org/x/tools/go/packages"
	"golang.org/x/tools/go/ssa"
	"golang.org/x/tools/go/ssa/ssautil"
)

// HarnessPkg is the import path of the overlay harness package.
const HarnessPkg = "github.com/cockroachdb/redact/zzverif"

var curTT *termTable
var curPC *pathCtx
var curInterp *interpreter
var curTask *Task

// funcsSeen records the SSA functions executed (name -> #instructions).
var funcsSeen = map[*ssa.Function]bool{}

func symConv(ut_dst, ut_src types.Type, x value) (value, bool) {
	switch x := x.(type) {
	case symv:
		if b, ok := ut_dst.(*types.Basic); ok {
			if b.Info()&types.IsInteger != 0 {
				return curTT.symConvInt(x, b.Kind()), true
			}
			if b.Kind() == types.String {
				// string(rune) with a symbolic rune: run utf8.AppendRune.
				return symRuneToString(x), true
			}
			if b.Kind() == types.UnsafePointer {
				unsup("symbolic value converted to unsafe.Pointer")
			}
			if b.Info()&types.IsFloat != 0 {
				unsup("symbolic integer converted to float")
			}
		}
		unsup("unsupported conversion of symbolic %v to %s", x.kind, ut_dst)
	case symstr:
		switch d := ut_dst.(type) {
		case *types.Slice:
			if eb, ok := d.Elem().Underlying().(*types.Basic); ok {
				if eb.Kind() == types.Byte {
					return append([]value{}, x...), true
				}
				if eb.Kind() == types.Rune {
					var out []value
					it := &symstrIter{s: x}
					for {
						t := it.next()
						if !asBool(t[0]) {
							break
						}
						out = append(out, t[2])
					}
					return out, true
				}
			}
			unsup("symbolic string -> %s", ut_dst)
		case *types.Basic:
			if d.Kind() == types.String {
				return x, true
			}
		}
	case []value:
		if s, ok := ut_src.(*types.Slice); ok {
			if b, ok := s.Elem().Underlying().(*types.Basic); ok {
				if d, ok := ut_dst.(*types.Basic); ok && d.Kind() == types.String {
					anySym := false
					for _, c := range x {
						if _, isSym := c.(symv); isSym {
							anySym = true
						}
					}
					if !anySym {
						return nil, false
					}
					if b.Kind() == types.Byte {
						return symstr(append([]value{}, x...)), true
					}
					if b.Kind() == types.Rune {
						var out symstr
						for _, c := range x {
							switch c := c.(type) {
							case symv:
								out = append(out, toSymstr(symRuneToString(c))...)
							default:
								out = append(out, toSymstr(string(c.(rune)))...)
							}
						}
						return normStr(out), true
					}
				}
			}
		}
	}
	return nil, false
}

func asBool(v value) bool { b, _ := v.(bool); return b }

// symRuneToString runs the real utf8.AppendRune on a symbolic rune.
func symRuneToString(x symv) value {
	r := curTT.symConvInt(x, types.Int32)
	fn := curInterp.prog.ImportedPackage("unicode/utf8").Func("AppendRune")
	out := call(curInterp, nil, token.NoPos, fn, []value{[]value(nil), r}).([]value)
	return normStr(symstr(out))
}

// symIndex performs the bounds check (forking) and returns an element pointer.
func symIndex(fr *frame, cells []value, idx symv) *symElemPtr {
	it := curTT.ext(idx.t, 64, kindSigned(idx.kind))
	inRange := curTT.cmp("bvult", it, curTT.konst(64, uint64(len(cells))))
	if !curPC.branch(inRange) {
		// the runtime's message embeds the index: render it with the real strconv
		var msg value = "index out of range (symbolic)"
		func() {
			defer func() {
				if r := recover(); r != nil {
					if _, ok := r.(pathStop); ok {
						panic(r)
					}
				}
			}()
			fn := curInterp.prog.ImportedPackage("strconv").Func("FormatInt")
			d := call(curInterp, nil, token.NoPos, fn, []value{curTT.wrap(it, types.Int64), 10})
			m := append(toSymstr("index out of range ["), toSymstr(d)...)
			m = append(m, toSymstr(fmt.Sprintf("] with length %d", len(cells)))...)
			msg = normStr(m)
		}()
		panic(targetPanic{iface{fr.i.runtimeErrorString, msg}})
	}
	return &symElemPtr{cells, it}
}

// concInt turns an integer value that must be concrete (slice bound,
// make size, ...) into a Go int, forking over feasible values.
func concInt(x value) value {
	if sv, ok := x.(symv); ok {
		v := curPC.concretize(sv.t)
		return fromConst(sv.kind, v)
	}
	return x
}

func initAllowed(path string) bool {
	switch path {
	case "unicode/utf8", "bytes", "fmt", "strings", "sort", "internal/fmtsort", "strconv", "math", "io":
		return true
	}
	return strings.HasPrefix(path, "github.com/cockroachdb/redact")
}

// Packages whose init is expensive and rarely needed (unicode: the range
// tables) are initialised on the first access to one of their globals,
// once per worker; the initialised cells join the shared standard-library
// state.
func lazyInitPkg(path string) bool { return path == "unicode" }

var lazyInitDone = map[*ssa.Package]bool{}
var lazyInitRunning bool
var lazyInitForce bool

func runLazyInit(i *interpreter, pkg *ssa.Package) {
	lazyInitRunning = true
	lazyInitForce = true
	defer func() { lazyInitRunning = false; lazyInitForce = false }()
	call(i, nil, token.NoPos, pkg.Func("init"), nil)
	lazyInitDone[pkg] = true
	shared := sharedGlobals[curProgram]
	for g, cell := range i.globals {
		if g.Pkg == pkg && shared != nil {
			shared[g] = cell
		}
	}
}

var curProgram *Program

func hname(name string) string { return HarnessPkg + "." + name }

func init() {
	h := func(name string, f externalFn) {
		externals[hname(name)] = f
	}
	h("vBytes", func(fr *frame, args []value) value {
		n := args[0].(int)
		r := make([]value, n)
		for i := range r {
			r[i] = symv{curPC.freshVar("b", 8), types.Uint8}
		}
		return r
	})
	h("vByte", func(fr *frame, args []value) value {
		return symv{curPC.freshVar("b", 8), types.Uint8}
	})
	h("vRune", func(fr *frame, args []value) value {
		return symv{curPC.freshVar("r", 32), types.Int32}
	})
	h("vInt", func(fr *frame, args []value) value {
		return symv{curPC.freshVar("i", 64), types.Int}
	})
	h("vInt64", func(fr *frame, args []value) value {
		return symv{curPC.freshVar("i", 64), types.Int64}
	})
	h("vUint64", func(fr *frame, args []value) value {
		return symv{curPC.freshVar("u", 64), types.Uint64}
	})
	h("vBool", func(fr *frame, args []value) value {
		return symv{curPC.freshVar("c", 0), types.Bool}
	})
	h("vChoose", func(fr *frame, args []value) value {
		return curPC.choose(args[0].(int))
	})
	h("vAnd", func(fr *frame, args []value) value {
		a, _ := curTT.lift(args[0])
		b, _ := curTT.lift(args[1])
		return curTT.wrap(curTT.and(a, b), types.Bool)
	})
	h("vOr", func(fr *frame, args []value) value {
		a, _ := curTT.lift(args[0])
		b, _ := curTT.lift(args[1])
		return curTT.wrap(curTT.or(a, b), types.Bool)
	})
	h("vNot", func(fr *frame, args []value) value {
		a, _ := curTT.lift(args[0])
		return curTT.wrap(curTT.not(a), types.Bool)
	})
	h("vIteByte", func(fr *frame, args []value) value {
		c, _ := curTT.lift(args[0])
		a, _ := curTT.lift(args[1])
		b, _ := curTT.lift(args[2])
		return curTT.wrap(curTT.ite(c, a, b), types.Uint8)
	})
	h("vAssume", func(fr *frame, args []value) value {
		t, _ := curTT.lift(args[0])
		curPC.assume(t)
		return nil
	})
	h("vAssert", func(fr *frame, args []value) value {
		msg := toGoString(args[1])
		if !propEnabled(msg) {
			return nil
		}
		t, _ := curTT.lift(args[0])
		curPC.nAsserts++
		curPC.assertProp(t, msg)
		return nil
	})
	h("vProp", func(fr *frame, args []value) value {
		return propEnabled(toGoString(args[0]) + "/")
	})
	h("vSymbolic", func(fr *frame, args []value) value { return true })
	h("vObserve", func(fr *frame, args []value) value {
		cells, _ := args[1].([]value)
		curPC.Observed = append(curPC.Observed, Observation{toGoString(args[0]), append([]value{}, cells...)})
		return nil
	})
	h("vCover", func(fr *frame, args []value) value {
		t, _ := curTT.lift(args[0])
		if curPC.Covers == nil {
			curPC.Covers = map[string]bool{}
		}
		if t.isConst() {
			if t.val != 0 {
				curPC.Covers[toGoString(args[1])] = true
			}
		} else {
			// reachable with the goal true on this path?  Cheap checks
			// only (facts, domains, the current model); never forks and
			// never asks the solver.
			if v, ok := curPC.decide(t); ok {
				if v {
					curPC.Covers[toGoString(args[1])] = true
				}
			} else if curPC.modelValid && curPC.eval(t) != 0 {
				curPC.Covers[toGoString(args[1])] = true
			}
		}
		return nil
	})
	h("vSite", func(fr *frame, args []value) value {
		curPC.Site = toGoString(args[0])
		return nil
	})
	h("vLog", func(fr *frame, args []value) value {
		if os.Getenv("GOSYM_VLOG") != "" {
			fmt.Fprintln(os.Stderr, "vLog:", toString(args[0]))
		}
		return nil
	})
}

// propEnabled: an assertion message "Cxx/what" is active when the
// task lists Cxx (or lists nothing).
func propEnabled(msg string) bool {
	if curTask == nil || len(curTask.Props) == 0 {
		return true
	}
	i := strings.Index(msg, "/")
	if i < 0 {
		return true
	}
	for _, p := range curTask.Props {
		if p == msg[:i] {
			return true
		}
	}
	return false
}

func toGoString(v value) string {
	switch v := v.(type) {
	case string:
		return v
	case symstr:
		return fmt.Sprintf("<symbolic string len %d>", len(v))
	}
	return fmt.Sprint(v)
}

// ---- loading ----

// Program is a loaded SSA program with the harness package.
type Program struct {
	Prog    *ssa.Program
	Harness *ssa.Package
	LoadS   float64
}

// Load builds SSA for repoDir with the harness overlay.
// overlay maps virtual absolute paths to real files.
func Load(repoDir string, overlay map[string]string) (*Program, error) {
	t0 := time.Now()
	ov := map[string][]byte{}
	for virt, real := range overlay {
		b, err := os.ReadFile(real)
		if err != nil {
			return nil, err
		}
		ov[virt] = b
	}
	cfg := &packages.Config{
		Mode:       packages.LoadAllSyntax,
		Dir:        repoDir,
		Overlay:    ov,
		BuildFlags: []string{"-tags=verif"},
		Env:        append(os.Environ(), "GOFLAGS=-mod=mod", "GOPROXY=off", "GOSUMDB=off", "GOTOOLCHAIN=local", "GOWORK=off"),
	}
	pkgs, err := packages.Load(cfg, "./zzverif")
	if err != nil {
		return nil, err
	}
	var sb strings.Builder
	nerr := 0
	packages.Visit(pkgs, nil, func(p *packages.Package) {
		for _, e := range p.Errors {
			fmt.Fprintln(&sb, e)
			nerr++
		}
	})
	if nerr > 0 {
		return nil, fmt.Errorf("load errors:\n%s", sb.String())
	}
	prog, ssapkgs := ssautil.AllPackages(pkgs, ssa.InstantiateGenerics)
	prog.Build()
	if len(ssapkgs) == 0 || ssapkgs[0] == nil {
		return nil, fmt.Errorf("no harness package")
	}
	return &Program{Prog: prog, Harness: ssapkgs[0], LoadS: time.Since(t0).Seconds()}, nil
}

// OverlayFor lists the overlay files: harnessDir/*.go -> repo/zzverif,
// harnessDir/acc/<pkgdir with __ for />/*.go -> repo/<pkgdir>/zz_verif_*.go
func OverlayFor(repoDir, harnessDir string) (map[string]string, error) {
	ov := map[string]string{}
	ents, err := os.ReadDir(harnessDir)
	if err != nil {
		return nil, err
	}
	for _, e := range ents {
		if !e.IsDir() && strings.HasSuffix(e.Name(), ".go") {
			ov[filepath.Join(repoDir, "zzverif", e.Name())] = filepath.Join(harnessDir, e.Name())
		}
	}
	accDir := filepath.Join(harnessDir, "acc")
	if ds, err := os.ReadDir(accDir); err == nil {
		for _, d := range ds {
			if !d.IsDir() {
				continue
			}
			pkgdir := strings.ReplaceAll(d.Name(), "__", "/")
			fs, _ := os.ReadDir(filepath.Join(accDir, d.Name()))
			for _, f := range fs {
				if strings.HasSuffix(f.Name(), ".go") {
					ov[filepath.Join(repoDir, pkgdir, "zz_verif_"+f.Name())] = filepath.Join(accDir, d.Name(), f.Name())
				}
			}
		}
	}
	mainDir := filepath.Join(harnessDir, "nativemain")
	if fs, err := os.ReadDir(mainDir); err == nil {
		for _, f := range fs {
			if strings.HasSuffix(f.Name(), ".go") {
				ov[filepath.Join(repoDir, "zzverif", "nativemain", f.Name())] = filepath.Join(mainDir, f.Name())
			}
		}
	}
	return ov, nil
}

// ---- exploring ----

// Task is one unit of work: explore the subtree under Prefix.
type Task struct {
	ID        int      `json:"id"`
	Oblig     int      `json:"oblig"`
	Harness   string   `json:"harness"`
	Args      []int    `json:"args"`
	Prefix    []int    `json:"prefix"`
	MaxPaths  int      `json:"max_paths"`
	BudgetMs  int      `json:"budget_ms"`
	PanicViol bool     `json:"panic_viol"` // a panic reaching the harness top is a violation
	NSamples  int      `json:"nsamples"`
	PoolMode  int      `json:"pool_mode"` // 0 LIFO, 1 adversarial
	Props     []string `json:"props"`     // active assertion groups (property ids)
}

// Sample is a completed path with its model and observations.
type Sample struct {
	Harness string            `json:"harness"`
	Args    []int             `json:"args"`
	Vector  []uint64          `json:"vector"`
	Path    []int             `json:"path"`
	Obs     map[string]string `json:"obs"` // tag -> hex bytes under the model
	Outcome string            `json:"outcome"`
}

// ObsClass is one distinct observed value for a tag (C02 constancy).
type ObsClass struct {
	Tag    string   `json:"tag"`
	Hex    string   `json:"hex"`
	Vector []uint64 `json:"vector"`
}

type TaskResult struct {
	ID          int            `json:"id"`
	Oblig       int            `json:"oblig"`
	Paths       int            `json:"paths"`
	Completed   int            `json:"completed"`
	Stopped     int            `json:"stopped"`
	Panics      int            `json:"panics"`
	Unsupported int            `json:"unsupported"`
	Unknown     int            `json:"unknown"`
	Asserts     int            `json:"asserts"`
	Decisions   int            `json:"decisions"`
	Pending     [][]int        `json:"pending"`
	Violations  []Violation    `json:"violations"`
	StopReasons map[string]int `json:"stop_reasons"`
	PanicMsgs   map[string]int `json:"panic_msgs"`
	UnsupMsgs   map[string]int `json:"unsup_msgs"`
	Covers      []string       `json:"covers"`
	Queries     int            `json:"queries"`
	Sat         int            `json:"sat"`
	Unsat       int            `json:"unsat"`
	QUnknown    int            `json:"qunknown"`
	SolverMs    float64        `json:"solver_ms"`
	WallMs      float64        `json:"wall_ms"`
	Samples     []Sample       `json:"samples"`
	ObsClasses  []ObsClass     `json:"obs_classes"`
	Funcs       []string       `json:"funcs"`
	Err         string         `json:"err,omitempty"`
}

// Worker holds a loaded program and a solver.
type Worker struct {
	P             *Program
	sol           *solver         // the solver of the current path
	sols          [2]*solver      // [0] SAT-based core, [1] classic core
	arith         map[string]bool // obligations that need the classic core
	tt            *termTable
	key           string // harness+args the term table belongs to
	mev, uev, pev evaluator
	prevDec       []int
}

func NewWorker(p *Program) *Worker { return &Worker{P: p} }

func (w *Worker) Close() {
	for _, s := range w.sols {
		if s != nil {
			s.close()
		}
	}
}

func (w *Worker) solverStats() (q [4]int, t time.Duration) {
	for _, s := range w.sols {
		if s != nil {
			q[0] += s.Queries
			q[1] += s.Sat
			q[2] += s.Unsat
			q[3] += s.Unknown
			t += s.Time
		}
	}
	return
}

// Run explores the subtree of t.Prefix by replay-based DFS.
func (w *Worker) Run(t *Task) *TaskResult {
	res := &TaskResult{ID: t.ID, Oblig: t.Oblig, StopReasons: map[string]int{}, PanicMsgs: map[string]int{}, UnsupMsgs: map[string]int{}}
	t0 := time.Now()
	if w.P.Harness.Func(t.Harness) == nil {
		res.Err = "no such harness: " + t.Harness
		return res
	}
	pending := [][]int{append([]int{}, t.Prefix...)}
	covers := map[string]bool{}
	obsSeen := map[string]bool{}
	funcsSeen = map[*ssa.Function]bool{}
	q0, st0 := w.solverStats()
	if w.arith == nil {
		w.arith = map[string]bool{}
	}
	if os.Getenv("GOSYM_Z3_NEWCORE") == "" {
		// default: z3's classic SMT core.  The SAT-based core (sat.smt)
		// is ~40% faster on some byte-only obligations but 5-100x slower
		// on others (quoting, runes, decimal digits), so it is opt-in.
		w.arith[fmt.Sprintf("%s%v", t.Harness, t.Args)] = true
	}
	curTask = t
	firstPath := true
	for len(pending) > 0 {
		if res.Paths >= t.MaxPaths && t.MaxPaths > 0 {
			break
		}
		if t.BudgetMs > 0 && time.Since(t0) > time.Duration(t.BudgetMs)*time.Millisecond && res.Paths > 0 {
			break
		}
		prefix := pending[len(pending)-1]
		pending = pending[:len(pending)-1]
		key := fmt.Sprintf("%s%v", t.Harness, t.Args)
		retain := -1
		si := 0
		if w.arith[key] {
			si = 1
		}
		switched := w.sols[si] == nil || w.sol != w.sols[si]
		if w.sols[si] == nil {
			w.sols[si] = newSolver(newTermTable(), si == 1)
		}
		w.sol = w.sols[si]
		if w.tt == nil || w.key != key || len(w.tt.all) > 400000 || firstPath || switched {
			// new obligation (or first path of a task): fresh terms and solver state
			firstPath = false
			w.tt = newTermTable()
			w.key = key
			w.sol.resetAll(w.tt)
		} else {
			// keep the solver scopes of the decisions shared with the previous path
			for retain = 0; retain < len(prefix) && retain < len(w.prevDec) && prefix[retain] == w.prevDec[retain]; retain++ {
			}
			if retain > w.sol.depth {
				retain = w.sol.depth
			}
			w.sol.popTo(retain)
		}
		tt := w.tt
		w.mev.env = nil
		w.mev.next()
		pc := &pathCtx{tt: tt, sol: w.sol, prefix: prefix, retain: retain, mev: &w.mev, uev: &w.uev, pev: &w.pev}
		curTT, curPC = tt, pc
		outcome := runOnce(w.P, t)
		if outcome == "stop:switch-core" {
			w.arith[key] = true
			pending = append(pending, prefix)
			w.prevDec = w.prevDec[:0]
			continue
		}
		if !strings.HasPrefix(outcome, "stop:") {
			// discharge the queued assertions of this path
			func() {
				defer func() {
					if r := recover(); r != nil {
						if ps, ok := r.(pathStop); ok {
							outcome = "stop:" + ps.reason
						} else {
							panic(r)
						}
					}
				}()
				pc.flushAsserts()
			}()
		}
		w.prevDec = append(w.prevDec[:0], pc.decisions...)
		if w.sol.depth > len(pc.decisions) {
			w.sol.popTo(len(pc.decisions))
		}
		res.Paths++
		res.Decisions += len(pc.decisions)
		res.Asserts += pc.nAsserts
		res.Unknown += pc.Unknowns
		switch {
		case outcome == "ok":
			res.Completed++
		case strings.HasPrefix(outcome, "stop:"):
			res.Stopped++
			res.StopReasons[outcome]++
		case strings.HasPrefix(outcome, "unsupported:"):
			res.Unsupported++
			res.UnsupMsgs[outcome]++
		default:
			res.Panics++
			if len(res.PanicMsgs) < 50 || res.PanicMsgs[outcome] > 0 {
				res.PanicMsgs[outcome]++
			}
			if t.PanicViol {
				func() {
					defer func() { recover() }()
					pc.ensureModel()
					vec, names := pc.vector(pc.model)
					pc.Viol = append(pc.Viol, Violation{"PANIC " + outcome + siteSuffix(pc), vec, names, append([]int{}, pc.decisions...)})
				}()
			}
		}
		for i := range pc.Viol {
			if pc.Site != "" && !strings.Contains(pc.Viol[i].Msg, " site=") {
				pc.Viol[i].Msg += siteSuffix(pc)
			}
		}
		res.Violations = append(res.Violations, pc.Viol...)
		for k := range pc.Covers {
			covers[k] = true
		}
		pending = append(pending, pc.pending...)
		// observations & samples
		if outcome == "ok" || strings.HasPrefix(outcome, "panic:") {
			func() {
				defer func() {
					if r := recover(); r != nil {
						if _, ok := r.(pathStop); !ok {
							if _, ok := r.(unsupported); !ok {
								panic(r)
							}
						}
					}
				}()
				w.collect(t, pc, outcome, res, obsSeen)
			}()
		}
	}
	res.Pending = pending
	for k := range covers {
		res.Covers = append(res.Covers, k)
	}
	sort.Strings(res.Covers)
	q1, st1 := w.solverStats()
	res.Queries = q1[0] - q0[0]
	res.Sat = q1[1] - q0[1]
	res.Unsat = q1[2] - q0[2]
	res.QUnknown = q1[3] - q0[3]
	res.SolverMs = float64(st1-st0) / 1e6
	for f := range funcsSeen {
		n := 0
		for _, b := range f.Blocks {
			n += len(b.Instrs)
		}
		res.Funcs = append(res.Funcs, fmt.Sprintf("%s:%d", f.String(), n))
	}
	sort.Strings(res.Funcs)
	res.WallMs = float64(time.Since(t0)) / 1e6
	return res
}

func siteSuffix(pc *pathCtx) string {
	if pc.Site == "" {
		return ""
	}
	return " site=" + pc.Site
}

// collect evaluates observations under the final model; for
// observations whose tag starts with "const:" it also checks that no
// symbolic byte can take a second value (C02) and reports classes.
func (w *Worker) collect(t *Task, pc *pathCtx, outcome string, res *TaskResult, obsSeen map[string]bool) {
	if len(pc.Observed) == 0 && len(res.Samples) >= t.NSamples {
		return
	}
	pc.ensureModel()
	obs := map[string]string{}
	for _, o := range pc.Observed {
		var sb strings.Builder
		for _, c := range o.Cells {
			ct, _ := pc.tt.lift(c)
			fmt.Fprintf(&sb, "%02x", pc.eval(ct)&0xff)
		}
		hex := sb.String()
		if prev, dup := obs[o.Tag]; dup {
			hex = prev + "|" + hex
		}
		obs[o.Tag] = hex
		if strings.HasPrefix(o.Tag, "const:") {
			for _, c := range o.Cells {
				if sv, ok := c.(symv); ok {
					can, m, r := pc.canDiffer(sv.t)
					if r == "unknown" {
						res.Unknown++
					}
					if can {
						// two instantiations of one class with different output
						vec2, _ := pc.vector(m)
						var sb2 strings.Builder
						save := pc.model
						pc.setModel(m)
						for _, c2 := range o.Cells {
							ct, _ := pc.tt.lift(c2)
							fmt.Fprintf(&sb2, "%02x", pc.eval(ct)&0xff)
						}
						pc.setModel(save)
						k := o.Tag + "=" + sb2.String()
						if !obsSeen[k] {
							obsSeen[k] = true
							res.ObsClasses = append(res.ObsClasses, ObsClass{o.Tag, sb2.String(), vec2})
						}
						break
					}
				}
			}
			k := o.Tag + "=" + hex
			if !obsSeen[k] {
				obsSeen[k] = true
				vec, _ := pc.vector(pc.model)
				res.ObsClasses = append(res.ObsClasses, ObsClass{o.Tag, hex, vec})
			}
		}
	}
	if len(res.Samples) < t.NSamples {
		vec, _ := pc.vector(pc.model)
		res.Samples = append(res.Samples, Sample{t.Harness, t.Args, vec, append([]int{}, pc.decisions...), obs, outcome})
	}
}

var sharedGlobals = map[*Program]map[*ssa.Global]*value{}

func runOnce(p *Program, t *Task) (outcome string) {
	curProgram = p
	mainpkg := p.Harness
	i := &interpreter{
		prog:       mainpkg.Prog,
		globals:    make(map[*ssa.Global]*value),
		sizes:      &types.StdSizes{WordSize: 8, MaxAlign: 8},
		goroutines: 1,
	}
	if os.Getenv("GOSYM_NORECOVER") != "" {
		i.mode = DisableRecover
	}
	if os.Getenv("GOSYM_TRACE") != "" {
		i.mode |= EnableTracing
	}
	runtimePkg := i.prog.ImportedPackage("runtime")
	i.runtimeErrorString = runtimePkg.Type("errorString").Object().Type()
	initReflect(i)
	curInterp = i
	pathSteps = 0
	pathDeadline = time.Now().Add(30 * time.Second)
	resetModels(t)
	defer func() {
		if i.mode&DisableRecover != 0 {
			return
		}
		if r := recover(); r != nil {
			switch p := r.(type) {
			case pathStop:
				outcome = "stop:" + p.reason
			case unsupported:
				outcome = "unsupported:" + p.msg
				if os.Getenv("GOSYM_STACK") != "" {
					fmt.Fprintln(os.Stderr, outcome)
					debug.PrintStack()
				}
			case targetPanic:
				outcome = "panic:" + panicString(p.v)
			default:
				outcome = fmt.Sprintf("panic:%v", r)
				if strings.Contains(outcome, "interp.") {
					// a host type error inside the interpreter (a value of an
					// engine-model type reached code that expects the real
					// representation): the engine cannot run this code
					outcome = "unsupported:engine fault: " + outcome[len("panic:"):]
				}
				if os.Getenv("GOSYM_STACK") != "" {
					fmt.Fprintln(os.Stderr, outcome)
					debug.PrintStack()
				}
			}
		}
	}()
	// Standard-library package state (lookup tables, sentinel errors) is
	// initialised once per program and shared by all paths: the target
	// never mutates it (sync.Pool contents live in the engine's own model).
	shared := sharedGlobals[p]
	for g, cell := range shared {
		i.globals[g] = cell
	}
	call(i, nil, token.NoPos, mainpkg.Func("init"), nil)
	if shared == nil {
		shared = map[*ssa.Global]*value{}
		for g, cell := range i.globals {
			if g.Pkg != nil && !strings.HasPrefix(g.Pkg.Pkg.Path(), "github.com/cockroachdb/redact") {
				shared[g] = cell
			}
		}
		sharedGlobals[p] = shared
	}
	if os.Getenv("GOSYM_STEPS") != "" {
		fmt.Fprintln(os.Stderr, "steps after init:", pathSteps)
		defer func() { fmt.Fprintln(os.Stderr, "steps total:", pathSteps) }()
	}
	args := make([]value, len(t.Args))
	for k, a := range t.Args {
		args[k] = a
	}
	inHarnessPhase = true
	call(i, nil, token.NoPos, mainpkg.Func(t.Harness), []value{args})
	return "ok"
}

func panicString(v value) (s string) {
	defer func() {
		if r := recover(); r != nil {
			s = "<unprintable panic value>"
		}
	}()
	if x, ok := v.(iface); ok {
		if x.t != nil {
			return x.t.String() + ": " + toString(x.v)
		}
	}
	return toString(v)
}

// symstrIter ranges over a symbolic string by running the real
// utf8.DecodeRuneInString on the remaining bytes.
type symstrIter struct {
	s symstr
	i int
}

func (it *symstrIter) next() tuple {
	okv := make(tuple, 3)
	if it.i >= len(it.s) {
		okv[0] = false
		return okv
	}
	fn := curInterp.prog.ImportedPackage("unicode/utf8").Func("DecodeRuneInString")
	r := call(curInterp, nil, token.NoPos, fn, []value{normStr(it.s[it.i:])}).(tuple)
	okv[0] = true
	okv[1] = it.i
	okv[2] = r[0]
	it.i += r[1].(int)
	return okv
}
