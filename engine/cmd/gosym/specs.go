package main

// Obligation tables per property (DESIGN §6).

func escapeObligs(tier string, withSplit bool) []Oblig {
	var obs []Oblig
	maxN := 4
	if tier == "thorough" {
		maxN = 6
	}
	for shape := 0; shape < 9; shape++ {
		for mode := 0; mode <= 1; mode++ {
			for n := 0; n <= maxN; n++ {
				if shape != 0 && shape != 2 && shape != 5 && n > maxN-1 {
					continue
				}
				obs = append(obs, Oblig{Harness: "H_escape", Args: []int{shape, n, mode, -1}})
			}
		}
	}
	if withSplit {
		sn := 4
		if tier == "thorough" {
			sn = 5
		}
		for mode := 0; mode <= 1; mode++ {
			for n := 1; n <= sn; n++ {
				for split := 0; split <= n; split++ {
					obs = append(obs, Oblig{Harness: "H_escape", Args: []int{0, n, mode, split}})
					if n <= 3 {
						obs = append(obs, Oblig{Harness: "H_escape", Args: []int{2, n, mode, split}})
					}
				}
			}
		}
	}
	return obs
}

func init() {
	register(&CheckSpec{
		ID:    "C10",
		Props: []string{"C10"},
		Obligs: func(tier string) []Oblig {
			return escapeObligs(tier, true)
		},
		Bounds: func(tier string) map[string]interface{} {
			n := 4
			if tier == "thorough" {
				n = 6
			}
			return map[string]interface{}{"payload_bytes_fully_symbolic": n, "prefix_fragment_shapes": 9, "modes": "unsafe(line splitting), safe-escaped", "split_points": "all, payload<=4 (5 thorough)"}
		},
		Goals:   []string{"marker-in-payload", "lf-first", "lf-last", "tail-added"},
		Assume:  []string{"raw-mode prefix is a well-formed, line-safe fragment of ASCII bytes and library markers (documented raw-mode use)"},
		Stubs:   []string{"none for the scanner; bytes.Equal/HasSuffix/utf8.DecodeLastRune interpreted from source"},
		Outside: []string{"payloads longer than the bound", "regexp engine internals (EscapeMarkers uses the regexp model)"},
	})
}

func init() {
	register(&CheckSpec{
		ID:    "CONF",
		Props: []string{"CONF"},
		Obligs: func(tier string) []Oblig {
			var obs []Oblig
			for k := 0; k < 51; k++ {
				obs = append(obs, Oblig{Harness: "H_conf", Args: []int{k}})
			}
			for k := 100; k < 112; k++ {
				obs = append(obs, Oblig{Harness: "H_conf", Args: []int{k}})
			}
			return obs
		},
	})
}
