package interp

// gosym: SMT solver pipe and replay-based path manager.

import (
	"bufio"
	"fmt"
	"io"
	"os"
	"os/exec"
	"strings"
	"time"
)

// SolverCmd is the command line of the primary solver.
var SolverCmd = []string{"z3-new", "-in"}

type solver struct {
	cmd     *exec.Cmd
	in      *bufio.Writer
	inc     io.WriteCloser
	out     *bufio.Reader
	defined map[int]bool // term ids defined in current session
	oldCore bool         // z3's classic SMT core (better on 64-bit arithmetic)
	depth   int          // scopes pushed above the base scope
	defAt   [][]int      // ids defined at each depth
	logAt   [][]int      // ids asserted at each depth (determinism check of replays)
	tt      *termTable
	Queries int
	Sat     int
	Unsat   int
	Unknown int
	Errors  int
	Time    time.Duration
	log     io.Writer
}

func newSolver(tt *termTable, oldCore bool) *solver {
	cmd := exec.Command(SolverCmd[0], SolverCmd[1:]...)
	in, _ := cmd.StdinPipe()
	out, _ := cmd.StdoutPipe()
	cmd.Stderr = cmd.Stdout
	if err := cmd.Start(); err != nil {
		panic(err)
	}
	sv := &solver{cmd: cmd, inc: in, in: bufio.NewWriterSize(in, 1<<16), out: bufio.NewReader(out), defined: map[int]bool{}, tt: tt}
	if p := os.Getenv("GOSYM_SMTLOG"); p != "" {
		f, _ := os.Create(fmt.Sprintf("%s.%d", p, os.Getpid()))
		sv.log = f
	}
	sv.oldCore = oldCore
	if !oldCore {
		// the SAT-based SMT core of z3 5.x is ~40% faster on these
		// incremental bit-vector queries (same answers on the recorded logs)
		sv.send("(set-option :sat.smt true)")
	}
	sv.send("(push)")
	sv.defAt = [][]int{nil}
	sv.logAt = [][]int{nil}
	return sv
}

func (s *solver) send(line string) {
	if s.log != nil {
		fmt.Fprintln(s.log, line)
	}
	s.in.WriteString(line)
	s.in.WriteByte('\n')
}

// resetAll drops every scope, definition and assertion.
func (s *solver) resetAll(tt *termTable) {
	s.popTo(0)
	// pop/push instead of (reset): z3's reset costs ~18 ms
	s.send("(pop)")
	s.send("(push)")
	s.defined = map[int]bool{}
	s.defAt = [][]int{nil}
	s.logAt = [][]int{nil}
	s.depth = 0
	s.tt = tt
}

func (s *solver) push() {
	s.send("(push)")
	s.depth++
	s.defAt = append(s.defAt, nil)
	s.logAt = append(s.logAt, nil)
}

func (s *solver) pop() {
	s.send("(pop)")
	for _, id := range s.defAt[s.depth] {
		delete(s.defined, id)
	}
	s.defAt = s.defAt[:s.depth]
	s.logAt = s.logAt[:s.depth]
	s.depth--
}

func (s *solver) popTo(d int) {
	for s.depth > d {
		s.pop()
	}
}

func (s *solver) markDefined(id int) {
	s.defined[id] = true
	s.defAt[s.depth] = append(s.defAt[s.depth], id)
}

func (s *solver) close() {
	s.send("(exit)")
	s.in.Flush()
	s.inc.Close()
	s.cmd.Wait()
}

// name returns the SMT name of t, emitting definitions as needed.
func (s *solver) name(t *term) string {
	if l := t.leafSMT(); l != "" {
		if t.op == "var" && !s.defined[t.id] {
			s.markDefined(t.id)
			s.send(fmt.Sprintf("(declare-const %s %s)", t.name, sortOf(t.w)))
		}
		return l
	}
	n := fmt.Sprintf("t%d", t.id)
	if s.defined[t.id] {
		return n
	}
	args := make([]string, len(t.args))
	for i, a := range t.args {
		args[i] = s.name(a)
	}
	var body string
	switch t.op {
	case "extract":
		body = fmt.Sprintf("((_ extract %d %d) %s)", t.a, t.b, args[0])
	case "zext":
		body = fmt.Sprintf("((_ zero_extend %d) %s)", t.a, args[0])
	case "sext":
		body = fmt.Sprintf("((_ sign_extend %d) %s)", t.a, args[0])
	default:
		body = "(" + t.op + " " + strings.Join(args, " ") + ")"
	}
	s.send(fmt.Sprintf("(define-fun %s () %s %s)", n, sortOf(t.w), body))
	s.markDefined(t.id)
	return n
}

func (s *solver) assert(t *term) {
	s.send("(assert " + s.name(t) + ")")
	s.logAt[s.depth] = append(s.logAt[s.depth], t.id)
}

func (s *solver) readLine() (string, error) {
	s.in.Flush()
	line, err := s.out.ReadString('\n')
	return strings.TrimSpace(line), err
}

// check returns "sat", "unsat" or "unknown".  Any "(error" line makes
// the answer unknown.
func (s *solver) check() string {
	t0 := time.Now()
	s.send("(check-sat)")
	s.send("(echo \"@@\")")
	res := "unknown"
	sawErr := false
	for {
		line, err := s.readLine()
		if err != nil {
			sawErr = true
			break
		}
		if line == "@@" || line == "\"@@\"" {
			break
		}
		switch {
		case line == "sat" || line == "unsat":
			res = line
		case strings.Contains(line, "error"):
			sawErr = true
			fmt.Fprintln(os.Stderr, "SOLVER ERROR:", line)
		}
	}
	s.Time += time.Since(t0)
	s.Queries++
	if sawErr {
		s.Errors++
		res = "unknown"
	}
	switch res {
	case "sat":
		s.Sat++
	case "unsat":
		s.Unsat++
	default:
		s.Unknown++
	}
	if s.log != nil {
		fmt.Fprintf(s.log, "; RESULT %s\n", res)
	}
	return res
}

// model reads the values of vars after a sat answer.
func (s *solver) model(vars []*term) map[int]uint64 {
	res := map[int]uint64{}
	if len(vars) == 0 {
		return res
	}
	var names []string
	for _, v := range vars {
		names = append(names, s.name(v))
	}
	s.send("(get-value (" + strings.Join(names, " ") + "))")
	s.send("(echo \"@@\")")
	var sb strings.Builder
	for {
		line, err := s.readLine()
		if err != nil || line == "@@" || line == "\"@@\"" {
			break
		}
		sb.WriteString(line)
		sb.WriteByte(' ')
	}
	txt := sb.String()
	for _, v := range vars {
		i := strings.Index(txt, "("+v.name+" ")
		if i < 0 {
			continue
		}
		rest := txt[i+len(v.name)+2:]
		j := strings.IndexAny(rest, ")")
		tok := strings.TrimSpace(rest[:j])
		var val uint64
		if strings.HasPrefix(tok, "#x") {
			fmt.Sscanf(tok[2:], "%x", &val)
		} else if strings.HasPrefix(tok, "#b") {
			for _, c := range tok[2:] {
				val = val<<1 | uint64(c-'0')
			}
		} else if tok == "true" {
			val = 1
		} else if strings.HasPrefix(tok, "(_ bv") {
			fmt.Sscanf(tok[5:], "%d", &val)
		}
		res[v.id] = val
	}
	return res
}

// ---- path manager ----

// Violation is a failed assertion (or harness-top panic) with the model
// that witnesses it.
type Violation struct {
	Msg    string   `json:"msg"`
	Vector []uint64 `json:"vector"` // values of the path's variables in creation order
	Names  []string `json:"names"`
	Path   []int    `json:"path"`
}

type pathStop struct{ reason string }

// unsupported is raised for engine limitations; it is never visible to
// the target program's recover().
type unsupported struct{ msg string }

func unsup(format string, args ...interface{}) {
	panic(unsupported{fmt.Sprintf(format, args...)})
}

type pathCtx struct {
	tt        *termTable
	sol       *solver
	prefix    []int
	decisions []int
	pending   [][]int
	vars      []*term
	nvar      int
	Viol      []Violation
	Covers    map[string]bool
	Observed  []Observation
	Forks     int
	Unknowns  int
	nAsserts  int
	Site      string

	model           map[int]uint64
	modelValid      bool
	mev             *evaluator // model evaluator
	uev             *evaluator // scratch evaluator for unary domain checks
	pev             *evaluator // scratch evaluator for product-domain checks
	ProdShortcuts   int
	AssertShortcuts int
	deferred        []deferredAssert
	retain          int   // decision levels whose solver scopes are kept from the previous path (-1: none)
	rcursor         []int // per retained depth: next position in the solver's assertion log

	known      map[int]bool       // term id -> truth value implied by the PC
	domains    map[int]*[4]uint64 // 8-bit variable id -> feasible values (over-approximation)
	relational map[int]bool       // variable occurs in an asserted non-unary constraint: its domain is not exact
	Shortcuts  int
	DomForks   int
}

// Observation is a value recorded by vObserve: bytes as terms.
type Observation struct {
	Tag   string
	Cells []value
}

func (p *pathCtx) freshVar(prefix string, w int) *term {
	if w >= 32 && !p.sol.oldCore {
		// 64-bit arithmetic (decimal digit loops) is pathological for the
		// SAT-based core: redo this obligation on the classic core
		panic(pathStop{"switch-core"})
	}
	v := p.tt.variable(fmt.Sprintf("%s%d", prefix, p.nvar), w)
	p.nvar++
	p.vars = append(p.vars, v)
	p.sol.name(v)
	return v
}

func (p *pathCtx) setModel(m map[int]uint64) {
	p.model = m
	p.modelValid = true
	p.mev.env = m
	p.mev.next()
}

// ensureModel makes sure a model of the current path condition is known.
func (p *pathCtx) ensureModel() {
	if p.modelValid {
		return
	}
	r := p.sol.check()
	switch r {
	case "sat":
		p.setModel(p.sol.model(p.vars))
	case "unsat":
		panic(pathStop{"infeasible path"})
	default:
		p.Unknowns++
		panic(pathStop{"solver unknown"})
	}
}

func (p *pathCtx) eval(t *term) uint64 {
	if t.op == "const" {
		return t.val
	}
	return p.mev.eval(t)
}

// assertT adds c to the path condition (solver + cheap fact stores).
func (p *pathCtx) assertT(c *term) {
	if p.suppressed() {
		// compare with what the retained scope holds
		d := len(p.decisions)
		for len(p.rcursor) <= d {
			p.rcursor = append(p.rcursor, 0)
		}
		k := p.rcursor[d]
		if d >= len(p.sol.logAt) || k >= len(p.sol.logAt[d]) || p.sol.logAt[d][k] != c.id {
			unsup("nondeterministic replay at depth %d", d)
		}
		p.rcursor[d] = k + 1
	} else {
		p.sol.assert(c)
	}
	p.learn(c, true)
}

func (p *pathCtx) learn(t *term, v bool) {
	if p.known == nil {
		p.known = map[int]bool{}
		p.domains = map[int]*[4]uint64{}
		p.relational = map[int]bool{}
	}
	if _, ok := p.known[t.id]; ok {
		return
	}
	p.known[t.id] = v
	switch t.op {
	case "not":
		p.learn(t.args[0], !v)
		return
	case "and":
		if v {
			for _, a := range t.args {
				p.learn(a, true)
			}
			return
		}
	case "or":
		if !v {
			for _, a := range t.args {
				p.learn(a, false)
			}
			return
		}
	}
	// unary domain filter
	if s := p.tt.support(t); len(s) != 1 {
		p.markRelational(t, map[int]bool{})
	} else {
		vt := p.tt.all[s[0]]
		if vt.w != 8 {
			p.relational[vt.id] = true
		} else {
			d := p.domains[vt.id]
			if d == nil {
				d = &[4]uint64{^uint64(0), ^uint64(0), ^uint64(0), ^uint64(0)}
				p.domains[vt.id] = d
			}
			want := uint64(b2i(v))
			for x := 0; x < 256; x++ {
				if d[x>>6]&(1<<uint(x&63)) == 0 {
					continue
				}
				p.uev.oneVar, p.uev.oneVal = vt.id, uint64(x)
				p.uev.next()
				if p.uev.eval(t) != want {
					d[x>>6] &^= 1 << uint(x&63)
				}
			}
		}
	}
}

// terms larger than this are not enumerated over byte domains
const evalSizeLimit = 300

func (p *pathCtx) markRelational(t *term, seen map[int]bool) {
	if seen[t.id] {
		return
	}
	seen[t.id] = true
	if t.op == "var" {
		p.relational[t.id] = true
		return
	}
	for _, a := range t.args {
		p.markRelational(a, seen)
	}
}

// exactUnary reports whether c depends on a single 8-bit variable whose
// domain is exact (all asserted constraints on it are unary), and if so
// which truth values c can take.
func (p *pathCtx) exactUnary(c *term) (ok, canT, canF bool) {
	s := p.tt.support(c)
	if len(s) != 1 {
		return
	}
	vt := p.tt.all[s[0]]
	if vt.w != 8 || (p.relational != nil && p.relational[vt.id]) {
		return
	}
	var full = [4]uint64{^uint64(0), ^uint64(0), ^uint64(0), ^uint64(0)}
	d := &full
	if p.domains != nil {
		if dd := p.domains[vt.id]; dd != nil {
			d = dd
		}
	}
	for x := 0; x < 256 && !(canT && canF); x++ {
		if d[x>>6]&(1<<uint(x&63)) == 0 {
			continue
		}
		p.uev.oneVar, p.uev.oneVal = vt.id, uint64(x)
		p.uev.next()
		if p.uev.eval(c) != 0 {
			canT = true
		} else {
			canF = true
		}
	}
	return true, canT, canF
}

// decide tries to settle c from known facts and unary domains:
// returns (value, true) when the PC implies c or its negation.
func (p *pathCtx) decide(c *term) (bool, bool) {
	if p.known == nil {
		return false, false
	}
	if v, ok := p.eval3(c, 0); ok {
		return v, true
	}
	if s := p.tt.support(c); len(s) >= 2 {
		if v, ok := p.decideProduct(c, s); ok {
			return v, true
		}
	} else if len(s) == 1 {
		vt := p.tt.all[s[0]]
		if d := p.domains[vt.id]; d != nil && vt.w == 8 {
			sawT, sawF := false, false
			for x := 0; x < 256 && !(sawT && sawF); x++ {
				if d[x>>6]&(1<<uint(x&63)) == 0 {
					continue
				}
				p.uev.oneVar, p.uev.oneVal = vt.id, uint64(x)
				p.uev.next()
				if p.uev.eval(c) != 0 {
					sawT = true
				} else {
					sawF = true
				}
			}
			if sawT != sawF {
				return sawT, true
			}
		}
	}
	return false, false
}

// decideProduct enumerates the product of the (over-approximate)
// byte domains of the <=4 variables c depends on, when that product
// is small; c is implied when it evaluates the same everywhere.
func (p *pathCtx) decideProduct(c *term, s []int) (bool, bool) {
	var vals [4][]uint64
	size := 1
	for k, id := range s {
		vt := p.tt.all[id]
		d := p.domains[id]
		if vt.w != 8 || d == nil {
			return false, false
		}
		for x := 0; x < 256; x++ {
			if d[x>>6]&(1<<uint(x&63)) != 0 {
				vals[k] = append(vals[k], uint64(x))
			}
		}
		size *= len(vals[k])
		if size > 2048 || size == 0 {
			return false, false
		}
	}
	if p.tt.sizeOf(c, 4000)*size > 6000000 {
		return false, false // enumeration would cost more than a solver query
	}
	env := map[int]uint64{}
	p.pev.env = env
	sawT, sawF := false, false
	idx := make([]int, len(s))
	for {
		for k, id := range s {
			env[id] = vals[k][idx[k]]
		}
		p.pev.next()
		if p.pev.eval(c) != 0 {
			sawT = true
		} else {
			sawF = true
		}
		if sawT && sawF {
			return false, false
		}
		k := 0
		for ; k < len(s); k++ {
			idx[k]++
			if idx[k] < len(vals[k]) {
				break
			}
			idx[k] = 0
		}
		if k == len(s) {
			break
		}
	}
	p.ProdShortcuts++
	return sawT, true
}

func (p *pathCtx) eval3(t *term, depth int) (bool, bool) {
	if t.op == "const" {
		return t.val != 0, true
	}
	if v, ok := p.known[t.id]; ok {
		return v, true
	}
	if depth > 8 {
		return false, false
	}
	switch t.op {
	case "not":
		v, ok := p.eval3(t.args[0], depth+1)
		return !v, ok
	case "and":
		all := true
		for _, a := range t.args {
			v, ok := p.eval3(a, depth+1)
			if ok && !v {
				return false, true
			}
			if !ok {
				all = false
			}
		}
		if all {
			return true, true
		}
	case "or":
		all := true
		for _, a := range t.args {
			v, ok := p.eval3(a, depth+1)
			if ok && v {
				return true, true
			}
			if !ok {
				all = false
			}
		}
		if all {
			return false, true
		}
	}
	return false, false
}

// queryWith checks PC ∧ extra; on sat and wantModel it returns the model.
func (p *pathCtx) queryWith(extra *term, wantModel bool) (string, map[int]uint64) {
	n := p.sol.name(extra) // definitions outside the temporary scope
	p.sol.push()
	p.sol.send("(assert " + n + ")")
	r := p.sol.check()
	var m map[int]uint64
	if r == "sat" && wantModel {
		m = p.sol.model(p.vars)
	}
	p.sol.pop()
	return r, m
}

func (p *pathCtx) record(d int) {
	p.decisions = append(p.decisions, d)
	if len(p.decisions) > p.retain {
		if len(p.decisions) == p.retain+1 && p.retain >= 0 {
			p.checkReplayComplete()
		}
		p.sol.push()
	}
}

// suppressed: the solver already holds this part of the path condition
// (scopes retained from the previous path).
func (p *pathCtx) suppressed() bool { return len(p.decisions) <= p.retain }

func (p *pathCtx) checkReplayComplete() {
	// every assertion of the retained scopes must have been re-derived
	for d := 0; d <= p.retain && d < len(p.sol.logAt); d++ {
		c := 0
		if d < len(p.rcursor) {
			c = p.rcursor[d]
		}
		if c != len(p.sol.logAt[d]) {
			unsup("nondeterministic replay: retained scope %d has %d assertions, replay produced %d", d, len(p.sol.logAt[d]), c)
		}
	}
}

// branch decides a symbolic condition on this path.
func (p *pathCtx) branch(c *term) bool {
	if c.isConst() {
		return c.val != 0
	}
	if dv, ok := p.decide(c); ok {
		// implied by the path condition: no fork, no decision recorded
		// (deterministic: depends only on the terms asserted so far)
		p.Shortcuts++
		return dv
	}
	n := len(p.decisions)
	if n < len(p.prefix) {
		d := p.prefix[n]
		p.record(d)
		if d == 1 {
			p.assertT(c)
		} else {
			p.assertT(p.tt.not(c))
		}
		p.modelValid = false
		return d == 1
	}
	if ok, canT, canF := p.exactUnary(c); ok && canT && canF {
		// both sides feasible by enumeration of the exact byte domain
		alt := append(append([]int{}, p.decisions...), 0)
		p.pending = append(p.pending, alt)
		p.Forks++
		p.DomForks++
		p.record(1)
		p.assertT(c)
		p.modelValid = false
		return true
	}
	p.ensureModel()
	v := p.eval(c) != 0
	var other *term
	if v {
		other = p.tt.not(c)
	} else {
		other = c
	}
	r, _ := p.queryWith(other, false)
	if r == "sat" || r == "unknown" {
		alt := append(append([]int{}, p.decisions...), b2i(!v))
		p.pending = append(p.pending, alt)
		p.Forks++
		if r == "unknown" {
			p.Unknowns++
		}
	}
	p.record(b2i(v))
	if v {
		p.assertT(c)
	} else {
		p.assertT(p.tt.not(c))
	}
	return v
}

func b2i(b bool) int {
	if b {
		return 1
	}
	return 0
}

// choose is a concrete k-way fork (vChoose).
func (p *pathCtx) choose(k int) int {
	if k <= 1 {
		return 0
	}
	n := len(p.decisions)
	if n < len(p.prefix) {
		d := p.prefix[n]
		p.record(d)
		return d
	}
	for j := k - 1; j >= 1; j-- {
		alt := append(append([]int{}, p.decisions...), j)
		p.pending = append(p.pending, alt)
	}
	p.Forks += k - 1
	p.record(0)
	return 0
}

// concretize forks over the feasible values of t (at most 64).  The
// decision recorded is the value itself.
func (p *pathCtx) concretize(t *term) uint64 {
	if t.isConst() {
		return t.val
	}
	n := len(p.decisions)
	if n < len(p.prefix) {
		d := uint64(p.prefix[n]) & mask(t.w)
		p.record(p.prefix[n])
		p.assertT(p.tt.cmp("=", t, p.tt.konst(t.w, d)))
		p.modelValid = false
		return d
	}
	p.ensureModel()
	v0 := p.eval(t)
	excl := p.tt.not(p.tt.cmp("=", t, p.tt.konst(t.w, v0)))
	cnt := 0
	for {
		r, m := p.queryWith(excl, true)
		if r == "unsat" {
			break
		}
		if r != "sat" {
			p.Unknowns++
			panic(pathStop{"solver unknown"})
		}
		cnt++
		if cnt > 64 {
			unsup("concretize: more than 64 feasible values")
		}
		save := p.model
		p.setModel(m)
		vi := p.eval(t)
		p.setModel(save)
		alt := append(append([]int{}, p.decisions...), int(int64(vi)))
		p.pending = append(p.pending, alt)
		p.Forks++
		excl = p.tt.and(excl, p.tt.not(p.tt.cmp("=", t, p.tt.konst(t.w, vi))))
	}
	p.record(int(int64(v0)))
	p.assertT(p.tt.cmp("=", t, p.tt.konst(t.w, v0)))
	return v0
}

func (p *pathCtx) assume(c *term) {
	p.flushAsserts()
	if c.isConst() {
		if c.val == 0 {
			panic(pathStop{"assume false"})
		}
		return
	}
	if len(p.decisions) < len(p.prefix) {
		// inside the replayed prefix the assumption was feasible
		p.assertT(c)
		p.modelValid = false
		return
	}
	p.ensureModel()
	if p.eval(c) != 0 {
		p.assertT(c)
		return
	}
	r, m := p.queryWith(c, true)
	switch r {
	case "sat":
		p.assertT(c)
		p.setModel(m)
	case "unsat":
		panic(pathStop{"assume false"})
	default:
		p.Unknowns++
		panic(pathStop{"solver unknown"})
	}
}

func (p *pathCtx) vector(m map[int]uint64) ([]uint64, []string) {
	vec := make([]uint64, len(p.vars))
	names := make([]string, len(p.vars))
	for i, v := range p.vars {
		vec[i] = m[v.id]
		names[i] = v.name
	}
	return vec, names
}

func (p *pathCtx) violate(msg string, m map[int]uint64) {
	vec, names := p.vector(m)
	p.Viol = append(p.Viol, Violation{msg, vec, names, append([]int{}, p.decisions...)})
	panic(pathStop{"violation"})
}

type deferredAssert struct {
	c   *term
	msg string
}

// assertProp checks an assertion.  Cheap refutations are immediate;
// otherwise the assertion is queued and discharged together with the
// other queued ones by a single solver query (flushAsserts) before the
// next assumption and at the end of the path, so the verdict is still
// "PC ∧ ¬assertion is unsat" for the path condition at the time of the
// flush, which only adds branch decisions, never assumptions.
func (p *pathCtx) assertProp(c *term, msg string) {
	if c.isConst() {
		if c.val == 0 {
			p.flushAsserts()
			p.ensureModel()
			p.violate(msg, p.model)
		}
		return
	}
	if v, ok := p.decide(c); ok && v {
		p.AssertShortcuts++
		// implied by facts/domains; still queued so that the solver confirms it
	}
	if p.modelValid && p.eval(c) == 0 {
		p.flushAsserts()
		p.violate(msg, p.model)
	}
	p.deferred = append(p.deferred, deferredAssert{c, msg})
}

// flushAsserts discharges the queued assertions with one query.
func (p *pathCtx) flushAsserts() {
	if len(p.deferred) == 0 {
		return
	}
	ds := p.deferred
	p.deferred = nil
	conj := p.tt.boolc(true)
	for _, d := range ds {
		conj = p.tt.and(conj, d.c)
	}
	r, m := p.queryWith(p.tt.not(conj), true)
	switch r {
	case "sat":
		p.setModel(m)
		for _, d := range ds {
			if p.eval(d.c) == 0 {
				p.violate(d.msg, m)
			}
		}
		p.violate(ds[0].msg+" (unattributed)", m)
	case "unsat":
		for _, d := range ds {
			p.learn(d.c, true)
		}
	default:
		p.Unknowns++
		panic(pathStop{"solver unknown"})
	}
}

// distinctValues asks whether t can take a value different from its
// value under the current model (used by the C02 constancy check).
func (p *pathCtx) canDiffer(t *term) (bool, map[int]uint64, string) {
	p.ensureModel()
	v := p.eval(t)
	r, m := p.queryWith(p.tt.not(p.tt.cmp("=", t, p.tt.konst(t.w, v))), true)
	return r == "sat", m, r
}
