#!/bin/bash
# run_all.sh [tier]: run every registered check, print one summary line each.
tier=${1:-quick}
cd /verif
for i in 01 02 03 04 05 06 07 08 09 10 11 12 13 14 15 16 17; do
  s=$(date +%s)
  out=$(./bin/gosym check C$i --tier $tier 2>&1); rc=$?
  e=$(( $(date +%s) - s ))
  echo "C$i rc=$rc ${e}s $(echo "$out" | grep '^check ' | sed 's/^check C.. tier=[a-z]*: //' | cut -c1-230)"
  echo "$out" | grep "INCONCLUSIVE\|cover goals\|MISMATCH\|UNCONFIRMED" | cut -c1-300 | head -4
done
